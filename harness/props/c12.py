"""C12 — the coordinate-file view (SystemGro) tiles the file into residues with stable random access.

Case:
  {"kind": "sysgro", "cls": str, "title": str, "vel": bool, "coordseed": int,
   "residues": [[resid, resname, [atomname, …]], …],          # written to a real .gro file
   "ops": [["g", i] | ["s", a, b, c] | ["in"] | ["ix", j], …]}  # index / slice / iter(s) / next(it_j)

Oracle (on the real code, against an independent parse of the raw bytes): iteration yields exactly the
maximal runs of equal (residue number, residue name), with every number/name/coordinate/velocity equal to
the file's; len / n_atoms / box / title agree with the file; every index / negative index / slice /
next(iterator) in the sequence returns what Python list semantics over those runs returns (IndexError
exactly when a list would raise it).

Model (gmdriver `sysgro`): templates, (resname,len) dictionary, RLE list, offsets, len, composition,
kind stream, every op result (as file indices of the atoms handed out) and the GroFile cursor
(`_current_atom`, file position) after the constructor and after every op.
"""
import os

from .. import sysgen as G
from .. import grogen as GG
from .. import common

RULE = ("files: 1..400 residues of size 1..12, with/without velocities, residue numbering sequential from a "
        "random start (wrapping at 99999), layouts: blocks / alternating / iid kinds / same name different sizes / "
        "same name+size different atom names / single residue / numbering quirks (equal numbers with different "
        "names, repeated (number,name), non-monotone) / residue names starting with a digit incl. pairs whose "
        "f'{resid}{resname}' strings collide; access sequences of up to 200 ops (index, negative, out of range, "
        "slices with None/negative/zero steps, several live iterators advanced in between). Non-trivial = at "
        "least 2 residues and at least one op; distinct by hash of the case.")

PLAIN = ["SOL", "BMIM", "BF4", "ALA", "GLY", "W", "ION", "POPC", "CHOL", "DPPC", "NA", "CL", "ABCDE", "X"]
DIGIT = ["1AB", "2PE", "3CN", "5CM", "1", "12", "1PE", "0X", "7"]


def _names(prefix, size):
    return [f"{prefix}{i + 1}" for i in range(size)]


def _kind(rng, resname=None, size=None, prefix=None):
    resname = resname or rng.choice(PLAIN)
    size = size or rng.randint(1, 12)
    prefix = prefix or rng.choice(["A", "B", "C", "H", "O"])
    return (resname, _names(prefix, size))


def _number(rng, kinds_seq, cls):
    """assign residue numbers to a sequence of kinds"""
    n = len(kinds_seq)
    start = rng.choice([1, 1, 1, rng.randint(1, 500), 99999 - rng.randint(0, min(n, 50)), 99990])
    out = []
    for i, (resname, names) in enumerate(kinds_seq):
        out.append([(start + i) % 100000, resname, list(names)])
    return out


def _layout(rng, cls, nres):
    if cls == "single":
        return [_kind(rng)]
    if cls == "blocks":
        kinds = [_kind(rng, resname=nm) for nm in rng.sample(PLAIN, rng.randint(1, 5))]
        seq = []
        while len(seq) < nres:
            k = rng.choice(kinds)
            seq += [k] * min(rng.randint(1, max(1, nres // 2)), nres - len(seq))
        return seq
    if cls == "alternating":
        kinds = [_kind(rng, resname=nm) for nm in rng.sample(PLAIN, rng.randint(2, 3))]
        return [kinds[i % len(kinds)] for i in range(nres)]
    if cls == "iid":
        kinds = [_kind(rng) for _ in range(rng.randint(2, 8))]
        return [rng.choice(kinds) for _ in range(nres)]
    if cls == "same-name-sizes":
        nm = rng.choice(PLAIN)
        sizes = rng.sample(range(1, 13), rng.randint(2, 4))
        kinds = [(nm, _names("A", s)) for s in sizes] + [_kind(rng)]
        return [rng.choice(kinds) for _ in range(nres)]
    if cls == "same-sig-atoms":
        nm = rng.choice(PLAIN)
        size = rng.randint(1, 6)
        kinds = [(nm, _names(p, size)) for p in rng.sample(["A", "B", "C", "D"], rng.randint(2, 3))]
        if rng.random() < 0.5:
            kinds.append(_kind(rng))
        return [rng.choice(kinds) for _ in range(nres)]
    if cls == "digit-names":
        kinds = [_kind(rng, resname=nm) for nm in rng.sample(DIGIT, rng.randint(1, 3))] + [_kind(rng)]
        return [rng.choice(kinds) for _ in range(nres)]
    raise ValueError(cls)


def _gen_residues(rng, cls, nres):
    if cls == "number-quirks":
        kinds = [_kind(rng, resname=nm) for nm in rng.sample(PLAIN, rng.randint(2, 4))]
        out = []
        resid = rng.randint(1, 50)
        for _ in range(nres):
            k = rng.choice(kinds)
            q = rng.random()
            if q < 0.35:
                resid = (resid + 1) % 100000
            elif q < 0.6:
                pass                                  # same number: boundary only if the name changes
            elif q < 0.8:
                resid = rng.randint(0, 120)           # non-monotone
            else:
                resid = (resid + rng.randint(2, 30)) % 100000
            out.append([resid, k[0], list(k[1])])
        return out
    if cls == "digit-collision":
        # adjacent residues (r, d+rest) and (10 r + d, rest): the strings f"{resid}{resname}" coincide
        seq = _layout(rng, "blocks", nres)
        out = _number(rng, seq, cls)
        tail = rng.choice(["AB", "PE", "X", "SOL", "", "7"])
        r = rng.randint(1, 999)
        d = rng.randint(0, 9)
        at = rng.randrange(0, len(out) + 1)
        sa, sb = rng.randint(1, 6), rng.randint(1, 6)
        pair = [[r, f"{d}{tail}", _names("A", sa)], [10 * r + d, tail, _names(rng.choice(["A", "B"]), sb)]]
        if tail == "":
            pair = [[r, f"{d}", _names("A", sa)], [10 * r + d, "", _names("A", sb)]]
        if rng.random() < 0.5:
            pair.reverse()
        return out[:at] + pair + out[at:]
    return _number(rng, _layout(rng, cls, nres), cls)


def _gen_ops(rng, nres, natoms_avg, nops):
    ops = []
    iters = 0
    budget = 40000          # atoms handed out per case
    max_items = max(3, int(4000 / max(1.0, natoms_avg)))
    for _ in range(nops):
        k = rng.random()
        if k < 0.4:
            ops.append(["g", G.rand_index(rng, nres)])
            budget -= natoms_avg
        elif k < 0.65:
            a, b, c = G.rand_slice(rng, nres, max_items)
            ops.append(["s", a, b, c])
            if c != 0:
                budget -= len(range(nres)[slice(a, b, c)]) * natoms_avg
        elif k < 0.72 or iters == 0:
            ops.append(["in"])
            iters += 1
        else:
            ops.append(["ix", rng.randrange(iters)])
            budget -= natoms_avg
        if budget < 0:
            break
    return ops


CLASSES = ["blocks", "alternating", "iid", "same-name-sizes", "same-sig-atoms", "single", "number-quirks",
           "digit-names", "digit-collision"]


def generate(ctx):
    rng = ctx.rng
    # one file with more than 100000 atoms (residue and atom numbers wrap in their five columns; "the file's atom
    # records" are the numbers WRITTEN there, not reconstructed ones — seed C12-8).  Oracle only.
    for natoms in ([100020] if ctx.quick() else [99990, 100020, 200040]):
        nres = natoms // 10
        names = ["OW", "HW1", "HW2", "C1", "C2", "C3", "N1", "O1", "P1", "S1"]
        residues = [[(k + 1) % 100000, "BIG" if k % 2 else "BGG", list(names)] for k in range(nres)]
        yield {"kind": "sysgro", "cls": "beyond-100000-atoms", "title": "big", "vel": False, "coordseed": natoms,
               "residues": residues, "ops": [["g", nres - 1], ["g", -2], ["g", 10000], ["s", nres - 3, None, None],
                                             ["g", 0], ["s", 9998, 10002, None]]}
    n = ctx.n(560, 7000)
    for i in range(n):
        cls = CLASSES[i % len(CLASSES)] if i < 3 * len(CLASSES) else rng.choice(CLASSES)
        q = rng.random()
        nres = 1 if cls == "single" else (rng.randint(2, 12) if q < 0.35 else
                                         rng.randint(13, 80) if q < 0.8 else rng.randint(81, 400))
        if i % 40 == 7:
            nres = 400
        residues = _gen_residues(rng, cls, nres)
        natoms = sum(len(r[2]) for r in residues)
        nops = rng.choice([0, 1, 5, 20, 60, 200]) if q < 0.3 else rng.randint(1, 200)
        ops = _gen_ops(rng, len(residues), natoms / len(residues), nops)
        # a front-to-back partial iteration followed by random access (the "abandoned iterator" pattern)
        if rng.random() < 0.3:
            k = rng.randint(0, min(len(residues), 30))
            ops = ([["in"]] + [["ix", 0]] * k + ops)[:200]
        ops = _fix_iter_ops(ops)
        # (titles with characters that take more BYTES than characters in UTF-8: offsets into the file are byte offsets —
        # seed C12-12: the position of the first atom line computed as a character count)
        title = rng.choice(["generated system", "t= 0.0", "Gro file", "x" * 60, "a b  c", "líquido iónico, caja de 4 nm",
                            "Å-scale box — 300 K"])
        case = {"kind": "sysgro", "cls": cls, "title": title, "vel": rng.random() < 0.5,
                "coordseed": rng.randrange(1 << 30), "residues": residues, "ops": ops}
        if rng.random() < 0.4:
            # triclinic box line: v1(x) v2(y) v3(z) v1(y) v1(z) v2(x) v2(z) v3(x) v3(y), all nine entries distinct
            # (so that a transposed or permuted matrix cannot pass), negative entries included
            d = [rng.choice([3.0, 4.5, 6.25]) + k for k in range(3)]
            off = [round(rng.choice([-1, 1]) * (0.125 + 0.25 * k + rng.randint(0, 3) * 0.0625), 5) for k in range(6)]
            case["box"] = d + off
        yield case
    # work package WPI: the rest of the view's API in the access sequences — an index of another type, str(view),
    # and the SHARED GroFile handle moved from outside between accesses (seek_atom incl. beyond natoms, next(),
    # readline(parsed=False)): "regardless of what was read before" for EVERY state of the cursor.
    # Generated after the cases above, which stay what they were.
    for i in range(ctx.n(70, 700)):
        cls = rng.choice(CLASSES)
        nres = 1 if cls == "single" else rng.randint(2, 40)
        residues = _gen_residues(rng, cls, nres)
        natoms = sum(len(r[2]) for r in residues)
        ops = _fix_iter_ops(_gen_xops(rng, len(residues), natoms, rng.randint(4, 60)))
        yield {"kind": "sysgro", "cls": cls, "title": rng.choice(["generated system", "x"]), "vel": rng.random() < 0.5,
               "coordseed": rng.randrange(1 << 30), "residues": residues, "ops": ops, "x": 1}


def _gen_xops(rng, nres, natoms, nops):
    ops, iters = [], 0
    for _ in range(nops):
        k = rng.random()
        if k < 0.06 and nres >= 2:
            # residue i, one raw line consumed from the handle (file position moves, `_current_atom` does not), then
            # residue i+1 — whose first atom is where `_current_atom` points
            i = rng.randrange(nres - 1)
            ops += [["g", i], ["pr"], ["g", i + 1]]
        elif k < 0.22:
            ops.append(["g", G.rand_index(rng, nres)])
        elif k < 0.34:
            ops.append(["s"] + list(G.rand_slice(rng, nres, 12)))
        elif k < 0.40 or (iters == 0 and k < 0.5):
            ops.append(["in"])
            iters += 1
        elif k < 0.5:
            ops.append(["ix", rng.randrange(iters)])
        elif k < 0.60:
            ops.append(["o", rng.choice(G.OTHER_KINDS)])
        elif k < 0.66:
            ops.append(["str"])
        elif k < 0.82:
            q = rng.random()
            ops.append(["ps", rng.randint(0, natoms) if q < 0.6 else natoms if q < 0.75 else natoms + rng.randint(1, 5)])
        elif k < 0.92:
            ops.append(["pn"])
        else:
            ops.append(["pr"])
    return ops


_counter = [0]


def _fix_iter_ops(ops):
    """make every ["ix", j] refer to an iterator that exists at that point"""
    out, iters = [], 0
    for o in ops:
        if o[0] == "in":
            iters += 1
            out.append(o)
        elif o[0] == "ix":
            if iters == 0:
                out.append(["in"])
                iters = 1
            out.append(["ix", min(int(o[1]), iters - 1)])
        else:
            out.append(o)
    return out


def _collision_boundaries(atoms):
    """indices i where (resid, resname) changes between atom i-1 and i but f'{resid}{resname}' does not"""
    out = []
    for i in range(1, len(atoms)):
        a, b = atoms[i - 1], atoms[i]
        if (a[0], a[1]) != (b[0], b[1]) and f"{a[0]}{a[1]}" == f"{b[0]}{b[1]}":
            out.append(i)
    return out


def _handle_of(s):
    """the GroFile a SystemGro reads through (`_open_fgro` today): found by TYPE among its attributes, so that a rename
    costs nothing"""
    from gaddlemaps.parsers import GroFile
    v = s.__dict__.get("_open_fgro")
    if isinstance(v, GroFile):
        return v
    for v in s.__dict__.values():
        if isinstance(v, GroFile):
            return v
    raise AttributeError("no GroFile handle on the SystemGro")


def evaluate(ctx, case):
    from gaddlemaps.components import SystemGro
    import numpy as np

    _counter[0] += 1
    path = os.path.join(ctx.scratch, f"c12-{_counter[0] % 3}.gro")   # path strings reused on purpose
    common.decoy(path, "gro")
    residues = case["residues"]
    ops = _fix_iter_ops(case["ops"])
    # one positions-only file in five is written in the high-precision layout %16.11f (68 columns, the length of a
    # %8.3f line WITH velocities, which the decoy loaded a moment ago has)
    wide = (not case["vel"]) and case["coordseed"] % 5 == 0 and case["cls"] != "beyond-100000-atoms"
    ctx.count("layout:" + ("%16.11f" if wide else "%8.3f"))
    if case.get("box"):
        G.write_gro(path, case["title"], residues, case["coordseed"], case["vel"], box=tuple(case["box"]), wide=wide)
        ctx.count("box:triclinic")
    else:
        G.write_gro(path, case["title"], residues, case["coordseed"], case["vel"], wide=wide)
        ctx.count("box:rectangular")
    raw = G.parse_gro_raw(path, width=16 if wide else 8)
    file_bytes = open(path, "rb").read()
    atoms = raw["atoms"]
    runs = G.runs_of(atoms)
    nres = len(runs)
    expected = [atoms[s:s + l] for s, l in runs]
    collisions = _collision_boundaries(atoms)
    ctx.case({k: case[k] for k in ("cls", "title", "vel", "coordseed", "residues", "ops")},
             nontrivial=nres >= 2 and len(ops) >= 1,
             sample={"cls": case["cls"], "nres": nres, "natoms": len(atoms), "nops": len(ops)})
    ctx.count("cls:" + case["cls"])
    ctx.count("vel:" + ("on" if case["vel"] else "off"))
    ctx.count("nres:" + ("1" if nres == 1 else "2-12" if nres <= 12 else "13-80" if nres <= 80 else "81-400+"))
    if collisions:
        ctx.count("files-with-residname-collision")

    # ------------------------------------------------------------------ implementation
    try:
        s = SystemGro(path)
    except Exception as e:  # the constructor must accept every well-formed file
        ctx.oracle_fail("SystemGro.__init__:raises-" + G.err_name(e), case, {"error": repr(e)})
        return
    impl = {}
    try:
        fobj = _handle_of(s)
        impl["templates"] = [G.residue_tuples(r) for r in s.different_molecules]
        impl["pk"] = sorted(tuple(k) + (int(v),) for k, v in s._molecules_pk.items())
        mo = list(s._molecules_ordered)
        impl["ordered"] = [(int(mo[i]), int(mo[i + 1])) for i in range(0, len(mo), 2)]
        impl["offsets"] = [tuple(int(x) for x in t) for t in s._molecules_ordered_all_gen()]
        impl["kinds"] = [int(x) for x in s.molecules_info_ordered_all]

        def cursor():
            off = GG.gfile(fobj).tell() - raw["init"]
            ls = raw["linesize"]
            if off <= len(atoms) * ls and off % ls == 0:
                pos = off // ls
            elif off == raw["size"] - raw["init"]:
                pos = len(atoms) + 1
            else:
                pos = -1
            return (pos, int(GG.priv(fobj, "_current_atom")))
        cursor()
        internals = True
    except (AttributeError, TypeError, IndexError, KeyError, ValueError) as e:
        internals = False
        ctx.count("internals-unavailable:" + type(e).__name__)

        def cursor():
            return None

    try:
        impl["len"] = len(s)
        impl["composition"] = sorted((str(k), int(v)) for k, v in s.composition.items())
        natoms_impl = s.n_atoms
        box_impl = np.asarray(s.box_matrix)
        title_impl = s.comment_line
    except Exception as e:
        ctx.oracle_fail("SystemGro:len/composition/n_atoms/box/title-raises-" + G.err_name(e), case, {"error": repr(e)})
        return
    impl["cursor0"] = cursor()

    # -- oracle: counts, box, title
    ctx.oracle_ok(4)
    if natoms_impl != raw["natoms"] or natoms_impl != len(atoms):
        ctx.oracle_fail("SystemGro.n_atoms", case, {"impl": natoms_impl, "file": raw["natoms"]})
    rb = raw["box"]
    # rows = box vectors; the nine numbers of a triclinic line are v1x v2y v3z v1y v1z v2x v2z v3x v3y
    want_box = np.diag(rb) if len(rb) == 3 else np.array([[rb[0], rb[3], rb[4]], [rb[5], rb[1], rb[6]],
                                                             [rb[7], rb[8], rb[2]]])
    if not np.array_equal(box_impl, want_box):
        ctx.oracle_fail("SystemGro.box_matrix", case, {"impl": box_impl, "file": raw["box"]})
    if title_impl.rstrip("\n") != raw["title"].rstrip("\n") and \
            title_impl.rstrip("\n") != case["title"]:      # (raw: bytes read as latin-1; the file is written as UTF-8)
        ctx.oracle_fail("SystemGro.comment_line", case, {"impl": title_impl, "file": raw["title"]})

    # -- oracle: iteration tiles the file into the runs
    try:
        s_it = SystemGro(path)      # a second view: the op sequence below starts from the constructor's cursor
        it_res = [G.residue_tuples(r) for r in s_it]
        del s_it
    except Exception as e:
        ctx.oracle_fail("SystemGro.__iter__:raises-" + G.err_name(e), case, {"error": repr(e)})
        it_res = None
    ctx.oracle_ok(2)
    tiles_ok = it_res == expected
    if not tiles_ok and it_res is not None:
        flat = [a for r in it_res for a in r]
        if flat == atoms and collisions:
            # every atom is there, but a boundary is missing exactly where the concatenated strings collide
            ctx.oracle_fail("SystemGro._parse_gro:boundary-missed-on-residname-collision", case,
                            {"boundaries_missed_at_atoms": collisions[:5], "residues_found": len(it_res),
                             "residues_in_file": nres,
                             "example": [list(atoms[collisions[0] - 1][:2]), list(atoms[collisions[0]][:2])]})
        elif flat == atoms:
            ctx.oracle_fail("SystemGro.__iter__:wrong-boundaries", case,
                            {"found": [len(r) for r in it_res][:50], "file": [l for _, l in runs][:50]})
        else:
            ctx.oracle_fail("SystemGro.__iter__:atoms-differ", case,
                            {"found_atoms": len(flat), "file_atoms": len(atoms)})
    if impl["len"] != nres and tiles_ok:
        ctx.oracle_fail("SystemGro.__len__", case, {"impl": impl["len"], "file": nres})
    comp = {}
    for r in expected:
        comp[r[0][1]] = comp.get(r[0][1], 0) + 1
    if tiles_ok and impl["composition"] != sorted(comp.items()):
        ctx.oracle_fail("SystemGro.composition", case, {"impl": impl["composition"], "file": sorted(comp.items())})

    # -- ops on the shared cursor
    iters = []
    results = []
    for op in ops:
        try:
            if op[0] == "g":
                got = s[int(op[1])]
                r = [G.residue_tuples(got)]
                # what was handed out is the caller's: it is moved and renumbered here; a later fetch of the same
                # index must again be the FILE's k-th residue (seed C12-5: the last fetched object is memoised
                # and handed out again)
                got.move(np.array([1.0, -2.0, 0.5]))
                got.resid = 4242
            elif op[0] == "s":
                gots = s[slice(op[1], op[2], op[3])]
                r = [G.residue_tuples(x) for x in gots]
                for x in gots[:3]:
                    x.move(np.array([0.25, 0.25, -1.0]))
            elif op[0] == "in":
                iters.append(iter(s))
                r = []
            elif op[0] == "o":
                s[G.other_index(op[1])]
                r = []
            elif op[0] == "str":
                results.append(("T", str(s), cursor()))
                continue
            elif op[0] == "ps":
                _handle_of(s).seek_atom(int(op[1]))
                results.append(("U", None, cursor()))
                continue
            elif op[0] == "pn":
                results.append(("A", G.atom_tuple_of_line(next(_handle_of(s))), cursor()))
                continue
            elif op[0] == "pr":
                _handle_of(s).readline(parsed=False)
                results.append(("U", None, cursor()))
                continue
            else:
                r = [G.residue_tuples(next(iters[int(op[1])]))]
            results.append(("R", r, cursor()))
        except Exception as e:
            results.append(("E", G.err_name(e), cursor()))
    # oracle: list semantics over the runs
    if tiles_ok:
        pos_it = []
        for opno, (op, res) in enumerate(zip(ops, results)):
            ctx.oracle_ok()
            if op[0] in ("ps", "pn", "pr"):
                ctx.count("poke:" + op[0] + (":err" if res[0] == "E" else ""))
                continue                    # not an access of the view: whatever it does, the accesses must not care
            try:
                if op[0] == "g":
                    want = ("R", [expected[int(op[1])]])
                elif op[0] == "o":
                    want = ("E", "TypeError")       # as a Python list answers an index of that type
                    ctx.count("other-index:" + str(op[1]))
                    if str(op[1]).startswith("np") and res[:2] == ("E", "IndexError"):
                        want = res[:2]                  # (taken as an index, out of range)
                    if str(op[1]).startswith("np") and res[0] == "R":
                        # a numpy integer IS an index for a Python list (`__index__`); the view refuses it today.
                        # Should it ever accept one, it must hand out that residue
                        want = ("R", [])
                        ctx.count("other-index:numpy-integer-accepted")
                elif op[0] == "str":
                    want = ("T", G.expected_str(comp))
                elif op[0] == "s":
                    want = ("R", expected[slice(op[1], op[2], op[3])])
                elif op[0] == "in":
                    pos_it.append(0)
                    want = ("R", [])
                else:
                    j = int(op[1])
                    if pos_it[j] is None or pos_it[j] >= nres:
                        pos_it[j] = None
                        want = ("E", "StopIteration")
                    else:
                        want = ("R", [expected[pos_it[j]]])
                        pos_it[j] += 1
            except IndexError:
                want = ("E", "IndexError")
            except ValueError:
                want = ("E", "ValueError")
            ctx.count("op:" + op[0] + (":err" if want[0] == "E" else ""))
            if res[:2] != want:
                what = {"g": "__getitem__(int)", "s": "__getitem__(slice)", "in": "__iter__",
                        "ix": "__iter__:next", "o": "__getitem__(other type)", "str": "__str__"}[op[0]]
                ctx.oracle_fail(f"SystemGro.{what}:differs-from-kth-run", case,
                                {"op": op, "op_number": opno, "got": _short(res[:2]), "want": _short(want)})
                break

    del s
    try:
        os.remove(path)
    except OSError:
        pass

    # ------------------------------------------------------------------ model
    if len(atoms) > 60000:
        ctx.count("model:not-asked-for-a-file-beyond-60000-atoms (oracle only)")
        return
    recs = [(a[0], a[1], a[2]) for a in atoms]
    # every third case of moderate size goes through the BYTE path: the model opens the very bytes of the file
    # (`sysGroOfBytes` = C13's reader composed with the view) instead of being handed the parsed records
    xcase = any(o[0] in ("o", "str", "ps", "pn", "pr") for o in ops)
    by_bytes = len(atoms) <= 700 and _counter[0] % 3 == 0 and not xcase and case["title"].isascii()
    ctx.count("model-input:" + ("file-bytes" if by_bytes else "parsed-records"))
    if by_bytes:
        toks = f"{file_bytes.hex()} {G.tok_ops(ops)}"
    else:
        toks = (f"{G.tok_records(recs)} {G.tok_ops(ops)}" if xcase else f"0 {G.tok_records(recs)} {G.tok_ops(ops)}")

    def cb(status, toks, case, impl=impl, results=results, internals=internals, atoms=atoms, by_bytes=by_bytes,
           hdr=(title_impl, natoms_impl, [float(x) for x in box_impl.flatten()])):
        from ..grogen import same_float
        T = G.Toks(toks)
        tag = T.tok()
        if tag == "G":
            ctx.disagree(case, "GroFile(path)", "opened", T.tok())
            return
        if tag == "E":
            ctx.disagree(case, "SystemGro.__init__", "constructed", T.tok())
            return
        if by_bytes:
            m_title = T.str()
            m_natoms = T.int()
            m_box = [T.num() for _ in range(9)]
            m_recs = T.list(T.rrec)
            if m_title != hdr[0]:
                ctx.disagree(case, "comment_line (byte path)", hdr[0], m_title)
            if m_natoms != hdr[1]:
                ctx.disagree(case, "n_atoms (byte path)", hdr[1], m_natoms)
            if len(m_box) != len(hdr[2]) or not all(same_float(a, b) for a, b in zip(m_box, hdr[2])):
                ctx.disagree(case, "box_matrix (byte path)", hdr[2], m_box)
            if len(m_recs) != len(atoms) or not all(G.same_atom(a, b) for a, b in zip(m_recs, atoms)):
                bad = next((i for i, (a, b) in enumerate(zip(m_recs, atoms)) if not G.same_atom(a, b)), None)
                ctx.disagree(case, "atom records (byte path)", [len(atoms), atoms[bad] if bad is not None else None],
                             [len(m_recs), m_recs[bad] if bad is not None else None])
                return
        m_templates = T.list(T.residue)
        m_pk = sorted(T.list(lambda: (T.str(), T.int(), T.int())))
        m_ordered = T.list(lambda: (T.int(), T.int()))
        m_offsets = T.list(lambda: (T.int(), T.int(), T.int())) if T.tok() == "L" else ("E", T.tok())
        m_len = T.int()
        m_comp = sorted(T.list(lambda: (T.str(), T.int()))) if T.tok() == "L" else ("E", T.tok())
        m_kinds = T.list(T.int)
        m_cur = (T.int(), T.int())
        if internals:
            if [[atoms[d] for d in t] for t in m_templates] != impl["templates"]:
                ctx.disagree(case, "different_molecules", [len(t) for t in impl["templates"]], m_templates)
            if m_pk != impl["pk"]:
                ctx.disagree(case, "_molecules_pk", impl["pk"], m_pk)
            if m_ordered != impl["ordered"]:
                ctx.disagree(case, "_molecules_ordered", impl["ordered"][:40], m_ordered[:40])
            if m_offsets != impl["offsets"]:
                ctx.disagree(case, "_molecules_ordered_all_gen", impl["offsets"][:20],
                             m_offsets[:20] if isinstance(m_offsets, list) else m_offsets)
            if m_kinds != impl["kinds"]:
                ctx.disagree(case, "molecules_info_ordered_all", impl["kinds"][:40], m_kinds[:40])
            if impl["cursor0"] is not None and m_cur != impl["cursor0"]:
                ctx.disagree(case, "cursor after __init__ (pos, _current_atom)", impl["cursor0"], m_cur)
        if m_len != impl["len"]:
            ctx.disagree(case, "__len__", impl["len"], m_len)
        if m_comp != impl["composition"]:
            ctx.disagree(case, "composition", impl["composition"], m_comp)
        nops = T.int()
        if nops != len(results):
            ctx.disagree(case, "number of op results", len(results), nops)
            return
        for k, res in enumerate(results):
            t = T.tok()
            if t == "E":
                m = ("E", T.tok())
            elif t == "T":
                m = ("T", T.str())
            elif t == "A":
                m = ("A", atoms[T.int()])
            elif t == "U":
                m = ("U", None)
            else:
                m = ("R", [[atoms[d] for d in r] for r in T.list(T.residue)])
            mc = (T.int(), T.int())
            opk = case["ops"][k] if k < len(case["ops"]) else None
            if m != res[:2] and opk and opk[0] == "o" and str(opk[1]).startswith("np") and res[:2] != ("E", "TypeError"):
                # a numpy integer taken as an index (the model refuses every index that is not an int or a slice):
                # outside the property; the access reads the file, so the cursor bookkeeping of the rest of the
                # sequence is not compared either.  The oracle above judges what the access returned.
                ctx.count("model-not-compared:numpy-integer-index-accepted")
                return
            if m != res[:2]:
                ctx.disagree(case, f"op {k} {case['ops'][k] if k < len(case['ops']) else ''}",
                             _short(res[:2]), _short(m))
                return
            if internals and res[2] is not None and mc != res[2]:
                ctx.disagree(case, f"cursor after op {k} (pos, _current_atom)", res[2], mc)
                return
        if not T.done():
            ctx.disagree(case, "trailing model output", "", toks[T.i:T.i + 5])

    case_for_replay = dict(case)
    case_for_replay["ops"] = ops
    ctx.model.ask("sysgrob" if by_bytes else ("sysgrox" if xcase else "sysgro"), toks, cb, case_for_replay)
    if _counter[0] % 20 == 0:
        ctx.model.flush(ctx)      # the callbacks hold every op result of the case: keep memory bounded

    if collisions:
        # informational: the model of the UNREPAIRED grouping (key = f"{resid}{resname}") on collision files
        def cb1(status, toks, case, impl=impl, atoms=atoms):
            T = G.Toks(toks)
            if T.tok() != "I":
                return
            T.list(T.residue)
            T.list(lambda: (T.str(), T.int(), T.int()))
            m_ordered = T.list(lambda: (T.int(), T.int()))
            if internals:
                ctx.count("unrepaired-model-" + ("matches" if m_ordered == impl["ordered"] else "differs-from")
                          + "-implementation-on-collision-file")
        ctx.model.ask("sysgro", f"1 {G.tok_records(recs)} 0", cb1, case)


def _short(x):
    tag, v = x
    if tag in ("E", "T", "A", "U"):
        return [tag, v]
    return [tag, [[(a[0], a[1], a[2], a[3]) for a in r[:3]] + ([f"… {len(r)} atoms"] if len(r) > 3 else [])
                  for r in v[:4]] + ([f"… {len(v)} residues"] if len(v) > 4 else [])]
