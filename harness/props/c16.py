"""C16 — ItpFile read–write–read loses no section, line or comment.

Cases:
  {"kind": "shipped", "path": "gaddlemaps/data/CUR_AA.itp"}      (read from $VERIF_REPO)
  {"kind": "text", "data": "<ascii text of an .itp file>", "cls": "..."}
  {"kind": "malformed", "data": "..."}   (typed lines the library must reject; model vs code only)

Per case the REAL code runs:  A = ItpFile(f); A.write(g); B = ItpFile(g); B.write(h); ItpFile(h);
read_topology(f/g).  Oracle (the property's own clauses, evaluated with harness.itpgen's independent
tokenizer on the BYTES of f, g, h and on the library's view of B):
  reread          — ItpFile(g) and ItpFile(h) load;
  names           — section names of g, in order of first appearance, are those of f;
  items           — per name the same (content tokens, stripped comment) / preprocessor items in
                    the same order;
  header          — text before the first section verbatim;
  view            — what ItpFile(g) shows (section.lines → content.split(), comment) is that too;
  topology        — read_topology(g) == read_topology(f) whenever f is a loadable topology;
  stable          — h carries the same items as g (second write).
Model: `itp_rt` returns the model's g, h and object dumps; compared byte for byte.
"""
import os

from ..common import hexs, unhexs
from .. import common
from .. import itpgen as G
from .. import topx

RULE = ("shipped: every *.itp under the repo; text: 20 directed edge files + generated files (1-10 sections in any order, 30% repeated "
        "names, content lines valid for the section kind with no/blank/simple/multiple/#-leading trailing "
        "comments, comment-only, blank, #-lines, header text, optional missing final newline, CRLF); "
        "malformed: one typed field broken. Non-trivial = file with >= 1 section and >= 1 content line; "
        "distinct by hash of the bytes.")

RISK = ("repeated-section", "blank-trailing-comment", "hash-comment")
_counter = [0]


def _repo():
    return os.environ.get("VERIF_REPO", "/repo")


def _path(ctx, tag):
    _counter[0] += 1
    return os.path.join(ctx.scratch, f"c16_{_counter[0] % 5}_{tag}.itp")   # path strings reused on purpose


def dump_obj(itp) -> str:
    """canonical dump of an ItpFile object through its public API (same layout as Driver.Itp.dump)"""
    out = []
    for key, sec in itp.items():
        if key == "header":
            out.append("".join(sec))
            out.append("\x00")
        else:
            out.append("S " + sec.section_name + "\n")
            for l in sec.lines:
                out.append("L " + l.content + "\x01" + l.comment + "\n")
            out.append("C %d\n" % len(sec))
    return "".join(out)


def view_obj(itp):
    """library's view: name -> [(tokens, comment)] for lines having either"""
    v = []
    for key, sec in itp.items():
        if key == "header":
            continue
        v.append((sec.section_name,
                  [(l.content.split(), l.comment) for l in sec.lines if l.content or l.comment]))
    return v


def view_spec(secs):
    return [(n, [((it[1], it[2]) if it[0] == "ln" else ([], it[1].strip())) for it in items])
            for n, items in secs.items()]


def errname(e):
    return "OSError" if isinstance(e, OSError) else type(e).__name__


def run_real(ctx, data: bytes):
    """run the library; returns a dict of observations"""
    from gaddlemaps.parsers import ItpFile, read_topology
    obs = {}
    f = _path(ctx, "f")
    common.decoy(f, "itp")
    with open(f, "wb") as fh:
        fh.write(data)
    try:
        A = ItpFile(f)
    except Exception as e:      # typed line rejected
        obs["load_err"] = errname(e)
        return obs
    obs["dumpA"] = dump_obj(A)
    try:
        obs["topA"] = ("ok", read_topology(f))
    except Exception as e:
        obs["topA"] = ("err", errname(e))
    g = _path(ctx, "g")
    try:
        A.write(g)
    except Exception as e:
        obs["write_err"] = errname(e)
        return obs
    # the loaded file duplicated with .copy() and the DUPLICATE written back: it is the same file "written back by
    # the library" (seed C16-10: a copy rebuilt from the content lines only loses comment and preprocessor lines)
    g2 = _path(ctx, "g2")
    try:
        C = A.copy()
        C.write(g2)
        del C
        obs["g2"] = open(g2, "rb").read()
    except Exception as e:
        obs["g2"] = "raises-" + errname(e)
    try:
        os.unlink(g2)
    except OSError:
        pass
    del A
    obs["g"] = open(g, "rb").read()
    try:
        B = ItpFile(g)
    except Exception as e:
        obs["reread_err"] = errname(e)
        return obs
    obs["dumpB"] = dump_obj(B)
    obs["viewB"] = view_obj(B)
    try:
        obs["topB"] = ("ok", read_topology(g))
    except Exception as e:
        obs["topB"] = ("err", errname(e))
    h = _path(ctx, "h")
    try:
        B.write(h)
    except Exception as e:   # noqa: BLE001  (the second write of a file the library itself wrote and re-read)
        obs["h"] = b""
        obs["reread2_err"] = "second-write-raises-" + errname(e)
        return obs
    del B
    obs["h"] = open(h, "rb").read()
    try:
        ItpFile(h)
        obs["reread2_err"] = None
    except Exception as e:
        obs["reread2_err"] = errname(e)
    for p in (f, g, h):
        try:
            os.unlink(p)
        except OSError:
            pass
    return obs


def clauses(data: bytes, obs) -> list[str]:
    """names of the property clauses that are FALSE for this run (empty = property holds)"""
    if "load_err" in obs:
        return []                      # nothing was read, nothing to round-trip
    if "write_err" in obs:
        return ["write-raises-" + obs["write_err"]]
    if "reread_err" in obs:
        return ["reread-raises-" + obs["reread_err"]]
    bad = []
    hf, sf = G.tokenize(G.decode(data))
    hg, sg = G.tokenize(G.decode(obs["g"]))
    hh, sh = G.tokenize(G.decode(obs["h"]))
    if list(sf) != list(sg):
        bad.append("names")
    if any(sf[n] != sg.get(n) for n in sf):
        bad.append("items")
    if hf != hg:
        bad.append("header")
    if obs.get("g2") != obs["g"]:
        # (the copy is written by the same writer: byte-identical to the direct write on a correct tree)
        try:
            h2, s2 = G.tokenize(G.decode(obs["g2"]))
            if list(s2) != list(sf) or any(sf[n] != s2.get(n) for n in sf) or h2 != hf:
                bad.append("copy-then-write")
        except Exception:
            bad.append("copy-then-write")
    if obs["viewB"] != view_spec(sf):
        bad.append("view")
    ta, tb = obs["topA"], obs["topB"]
    if ta[0] == "ok" and tb != ta:
        bad.append("topology")
    if obs["reread2_err"] or list(sh) != list(sg) or any(sh[n] != sg[n] for n in sg) or hh != hg:
        bad.append("stable")
    return bad


def generate(ctx):
    rng = ctx.rng
    for p in G.shipped_itps(_repo()):
        yield {"kind": "shipped", "path": p}
    # directed edge cases (each class on its own, small)
    base = "[ moleculetype ]\nMOL 1\n[ atoms ]\n1 C 1 MOL C1 1 0.0 12.0\n2 C 1 MOL C2 2 0.0 12.0\n"
    edge = [
        ("repeated", base + "[ bonds ]\n1 2 1\n[ dihedrals ]\n1 2 1 2 9\n[ angles ]\n1 2 1 5\n[ dihedrals ]\n2 1 2 1 4\n"),
        ("repeated-adjacent", base + "[ bonds ]\n1 2\n[ bonds ]\n2 1\n"),
        ("blank-comment", base + "[ bonds ]\n1 2 1 ;\n2 1 1\n"),
        ("blank-comment-ws", base + "[ bonds ]\n1 2 1 ;   \n2 1 1 ; \t\n"),
        ("blank-comment-last", base + "[ bonds ]\n1 2 1 ;"),
        ("multi-comment", base + "[ bonds ]\n1 2 1 ; one ; two ;; three\n"),
        ("hash-in-comment", base + "[ bonds ]\n1 2 1 ; #1 bond\n"),
        ("commented-directive", base + "[ bonds ]\n;#include \"x.itp\"\n; #ifdef A\n1 2\n"),
        ("directives", base + "#ifdef POSRES\n#include \"posre.itp\"\n#endif\n[ bonds ]\n#ifdef X\n1 2\n#else\n2 1\n#endif\n"),
        ("header-text", "; title\nfree text\n#define A\n\n" + base),
        ("no-final-newline", base + "[ bonds ]\n1 2 1"),
        ("no-final-newline-comment", base + "[ bonds ]\n1 2 1 ; c"),
        ("no-final-newline-repeated", "[ a ]\nx 1\n[ b ]\ny 2\n[ a ]\nz 3"),
        ("only-header", "; nothing but header\ntext"),
        ("empty", ""),
        ("empty-sections", "[ a ]\n[ b ]\n\n[ a ]\n"),
        ("crlf", base.replace("\n", "\r\n") + "[ bonds ]\r\n1 2 ; c\r\n"),
        ("indented-hash", "[ x ]\n  #ifdef Y\n a b\n"),
        ("bracket-noise", "[ x ] ; trailing [y]\n1 [ 2\n[ 3\n ] 4\n; [ z ]\n"),
        ("substring-kind", "[ type ]\nMOL 3 ; as moleculetype\n[ ]\nX 1\n"),
    ]
    for cls, text in edge:
        yield {"kind": "text", "data": text, "cls": "edge:" + cls}
    for _ in range(ctx.n(3000, 120000)):
        c = G.gen_itp_text(rng)
        yield {"kind": "text", "data": c["data"], "cls": "gen"}
    for _ in range(ctx.n(40, 1200)):
        c = G.gen_itp_text(rng, big=True)
        yield {"kind": "text", "data": c["data"], "cls": "gen-big"}
    for _ in range(ctx.n(300, 12000)):
        n = rng.randint(1, 12)
        c = G.gen_topology(rng, n, rng.choice(G.GRAPH_CLASSES))
        yield {"kind": "text", "data": c["data"], "cls": "gen-topology"}
    # one file well beyond 1 MiB (a polymer of 24000 beads): buffer sizes, size hints, "large file" special cases
    # (seed C16-8: `readlines(1 << 20)` — a size HINT — silently drops everything after the first MiB).  Oracle only.
    for n in ([24000] if ctx.quick() else [11000, 24000, 50000]):
        c = G.gen_topology(rng, n, "chain", noise=0.02)
        yield {"kind": "text", "data": c["data"], "cls": "gen-huge"}
    # malformed typed lines: model and code must raise the same class
    bad_lines = {
        "atoms": ["x C 1 MOL C1 1", "1 C y MOL C1 1", "1 C 1 MOL C1", "1 C 1 MOL C1 z", "1 C 1 MOL C1 1 q",
                  "1 C 1 MOL C1 1 0.1 m", "1", "1 C", "1.5 C 1 MOL C1 1", "1 C 1 MOL C1 1 1_0.5 1e5",
                  "1 C 1 MOL C1 1 nan inf", "1 C 1 MOL C1 1 1__0", "  #ifdef X", "_1 C 1 M C 1", "1 C 1 M C 1 0x1"],
        "bonds": ["1", "1 x", "x 1", "1 2 y", "1 2 1 abc 2.5", "1;2", "1 2;3"],
        "moleculetype": ["MOL", "MOL x", "MOL 0", "MOL -1", "MOL ; 3", "MOL;c 3", "MOL; 3", "MOL 3;c", "MOL 1_0"],
        "type": ["MOL", "MOL 2"],
    }
    flat = [(s, l) for s, ls in bad_lines.items() for l in ls]
    for s, l in flat:
        yield {"kind": "malformed", "data": f"[ {s} ]\n{l}\n"}
    for _ in range(ctx.n(200, 6000)):
        c = G.gen_itp_text(rng)
        s, l = rng.choice(flat)
        yield {"kind": "malformed", "data": c["data"].rstrip("\r\n") + f"\n[ {s} ]\n{l}\n"}
    # work package WPE: typed line classes (getters, setters, edits then write / re-read), ItpSection, file objects
    yield from topx.gen_c16(ctx)


def evaluate(ctx, case):
    if case["kind"] in ("typed", "section", "float", "atomline"):
        return topx.eval_c16(ctx, case)
    if case["kind"] == "shipped":
        path = os.path.join(_repo(), case["path"])
        data = open(path, "rb").read()
        cls = "shipped"
    else:
        data = case["data"].encode("latin-1")
        cls = case.get("cls", case["kind"])
    try:
        text = G.decode(data)
    except UnicodeDecodeError:
        ctx.count("skipped:non-ascii")
        return
    feats = G.features_of(text)
    _, secs = G.tokenize(text)
    nontrivial = bool(secs) and any(it[0] == "ln" and it[1] for items in secs.values() for it in items)
    ctx.case({"bytes": data}, nontrivial, sample={"cls": cls, "features": feats, "size": len(data),
                                                   "head": text[:120]})
    ctx.count("class:" + cls.split(":")[0])
    for f in feats:
        ctx.count("feature:" + f)

    obs = run_real(ctx, data)
    if "load_err" in obs:
        ctx.count("load-rejected:" + obs["load_err"])
    else:
        ctx.count("loaded")
    if case["kind"] != "malformed":
        bad = clauses(data, obs)
        ctx.oracle_ok(7)
        if bad:
            # shrink on the first failing clause, then name the input class from the minimal text
            first = bad[0]

            def still(t):
                try:
                    d = t.encode("latin-1")
                    return first in clauses(d, run_real(ctx, d))
                except Exception:
                    return False
            small = G.shrink_lines(text, still, budget=60 if len(text) > 20000 else 300)
            sf = [f for f in G.features_of(small) if f in RISK] or ["other"]
            key = "roundtrip:" + "+".join(sf)
            d = small.encode("latin-1")
            o2 = run_real(ctx, d)
            ctx.oracle_fail(key, {"kind": "text", "data": small, "cls": "shrunk-from:" + cls},
                            {"false_clauses": clauses(d, o2), "from": case.get("path", cls),
                             "written": o2.get("g", b"").decode("latin-1"),
                             "reread_err": o2.get("reread_err")})
            ctx.count("oracle-fail:" + key)
            # documentation only: the model of the UNREPAIRED code (Itp.Orig) against what the code wrote
            if "g" in obs:
                def cbo(status, toks, case, g=obs["g"]):
                    ok = status == "ok" and unhexs(toks[0]) == g.decode("latin-1")
                    ctx.count("orig-model:" + ("agrees-with-code" if ok else "differs-from-code"))
                ctx.model.ask("itp_orig", hexs(data), cbo, case)
            if case["kind"] == "shipped":
                ctx.count("oracle-fail-shipped:" + os.path.basename(case["path"]))

    def cb(status, toks, case, obs=obs, data=data):
        def dis(what, impl, model):
            ctx.disagree({"kind": "text", "data": data.decode("latin-1")}, what, impl, model)
        if status == "err":
            if toks[0] == "OutOfModel":
                ctx.count("model:out-of-model")
                return
            if obs.get("load_err") != toks[0]:
                dis("ItpFile(f) exception", obs.get("load_err", "loaded"), toks[0])
            return
        if "load_err" in obs:
            dis("ItpFile(f) exception", obs["load_err"], "loaded")
            return
        if "write_err" in obs:
            dis("write raised", obs["write_err"], "ok")
            return
        g, dumpA, tag = unhexs(toks[0]), unhexs(toks[1]), toks[2]
        if obs["g"].decode("latin-1") != g:
            dis("write(f) bytes", obs["g"].decode("latin-1"), g)
        if obs["dumpA"] != dumpA:
            dis("ItpFile(f) object", obs["dumpA"], dumpA)
        rest = toks[3:]
        if tag == "R":
            if obs.get("reread_err") != rest[0]:
                dis("ItpFile(g) exception", obs.get("reread_err", "loaded"), rest[0])
            rest = rest[1:]
            top_b = None
        else:
            if "reread_err" in obs:
                dis("ItpFile(g) exception", obs["reread_err"], "loaded")
                return
            dumpB, h = unhexs(rest[0]), unhexs(rest[1])
            if obs["dumpB"] != dumpB:
                dis("ItpFile(g) object", obs["dumpB"], dumpB)
            if obs["h"].decode("latin-1") != h:
                dis("write(g) bytes", obs["h"].decode("latin-1"), h)
            rest = rest[2:]
            top_b, rest = parse_top(rest)
            if top_b != canon_top(obs["topB"]):
                dis("read_topology(g)", canon_top(obs["topB"]), top_b)
        top_a, rest = parse_top(rest)
        if top_a != canon_top(obs["topA"]):
            dis("read_topology(f)", canon_top(obs["topA"]), top_a)
    if len(data) > 700000:
        ctx.count("model:not-asked-for-a-file-beyond-700kB (oracle only)")
        return
    ctx.model.ask("itp_rt", hexs(data), cb, case)


def canon_top(t):
    if t[0] == "err":
        return ("err", t[1])
    name, atoms, bonds = t[1]
    return ("ok", name, [(a[0], a[1], int(a[2])) for a in atoms], [(int(b[0]), int(b[1])) for b in bonds])


def parse_top(toks):
    """parse Driver.Itp.topOut; returns (canonical topology without the adjacency part, rest)"""
    i = 0
    if toks[i] == "E":
        return ("err", toks[i + 1]), toks[i + 2:]
    assert toks[i] == "T"
    name = unhexs(toks[i + 1])
    n = int(toks[i + 2])
    i += 3
    atoms = []
    for _ in range(n):
        atoms.append((unhexs(toks[i]), unhexs(toks[i + 1]), int(toks[i + 2])))
        i += 3
    m = int(toks[i])
    i += 1
    bonds = []
    for _ in range(m):
        bonds.append((int(toks[i]), int(toks[i + 1])))
        i += 2
    if toks[i] == "E":
        i += 2
    else:
        assert toks[i] == "A"
        k = int(toks[i + 1])
        i += 2
        for _ in range(k):
            d = int(toks[i])
            i += 1 + d
        i += 1            # connectivity verdict
    return ("ok", name, atoms, bonds), toks[i:]
