"""C03 — the exchange map is local and shape-preserving under deformation."""
import numpy as np

from .. import emapcommon as E

RULE = ("reference as in C01 plus 1-/2-atom references; new conformation = independent displacement of every atom "
        "(sigma in {1e-3, 0.05, 0.5} nm), or ('local') a conformation in which exactly one atom outside the "
        "dependency set {anchor, its two lowest-numbered neighbours} of some mapped atom is displaced again. "
        "Non-trivial = deformed conformation with >= 2 mapped atoms; distinct by canonical hash.")

TOL = 1e-9


def generate(ctx):
    rng = ctx.rng
    for _ in range(ctx.n(2000, 12000)):
        cls = rng.choice(["generic-tree", "generic-tree", "generic-cyclic", "collinear-chain",
                          "partly-collinear", "nearly-collinear", "lattice", "two-atom", "one-atom"])
        pos, bonds, cls = E.gen_ref(rng, cls)
        sigma = rng.choice([1e-3, 0.05, 0.5])
        newpos = [[c + rng.gauss(0, sigma) for c in p] for p in pos]
        case = {"ref": {"pos": pos, "bonds": [list(b) for b in bonds]}, "tgt": E.gen_tgt(rng, pos, cls),
                "s": E.gen_scale(rng), "mode": "deform", "cls": cls, "seed": rng.randrange(2 ** 31),
                "newpos": newpos, "sigma": sigma,
                "ident": rng.choice(["fresh", "fresh", "construction-object", "reused-object"])}
        if len(pos) >= 3 and rng.random() < 0.08:
            # new conformation in which an anchor's FIRST frame neighbour (its lowest-numbered bonded atom) sits
            # exactly on the anchor: the frame is still defined (first vector from the second neighbour, fallback
            # normal), so shape and locality must hold (seed C03-8: `<` for `<=` in the aligned-case test, 0 < 0)
            nb0 = E.neighbours(len(pos), bonds)
            anchors0 = [a for a in range(len(pos)) if len(nb0[a]) >= 2]
            if anchors0:
                a = rng.choice(anchors0)
                trial = [list(p) for p in newpos]
                trial[sorted(nb0[a])[0]] = list(trial[a])
                # only where every frame stays defined: no anchor may coincide with its SECOND frame neighbour
                # (the explicit hypothesis `DistinctFrames` of the theorems; there the first vector is 0/0)
                if all(trial[b] != trial[sorted(nb0[b])[1]] for b in anchors0):
                    newpos = trial
                    case["newpos"] = newpos
                    case["cls"] = cls + "+first-neighbour-on-anchor"
        if len(pos) >= 4 and rng.random() < 0.5:
            case["mode"] = "local"
            case["moved"] = rng.randrange(len(pos))
            case["delta"] = [rng.gauss(0, 0.3) for _ in range(3)]
            nb = E.neighbours(len(pos), bonds)
            branching = [a for a in range(len(pos)) if len(nb[a]) >= 3]
            if branching and rng.random() < 0.5:
                # NEW conformation with a branching anchor exactly collinear with its two lowest-numbered
                # neighbours; displace one of its OTHER neighbours (outside the dependency set)
                a = rng.choice(branching)
                n1, n2 = sorted(nb[a])[:2]
                base = [float(rng.randint(-2, 2)) for _ in range(3)]
                d = [float(rng.randint(-2, 2)) for _ in range(3)]
                if not any(d):
                    d = [0.0, 1.0, 0.0]
                newpos[a] = base
                newpos[n1] = [base[k] + rng.choice([-2, -1, 1, 2]) * 0.25 * d[k] for k in range(3)]
                newpos[n2] = [base[k] + rng.choice([-3, 3]) * 0.25 * d[k] for k in range(3)]
                case["moved"] = rng.choice(sorted(nb[a])[2:])
                case["cls"] = cls + "+collinear-branching-anchor"
        yield case


def evaluate(ctx, case):
    refpos, tgt, s = case["ref"]["pos"], case["tgt"], case["s"]
    n = len(refpos)
    anchors, nb = E.anchors_of(n, [tuple(b) for b in case["ref"]["bonds"]])
    impl = E.safe_run(ctx, case)
    if impl is None:
        return
    ctx.case(case, nontrivial=len(tgt) >= 2,
             sample={k: case.get(k) for k in ("cls", "s", "mode", "sigma", "moved")} | {"n_ref": n, "n_tgt": len(tgt)})
    ctx.count("cls:" + case["cls"])
    ctx.count("mode:" + case["mode"])
    ctx.count("ident:" + case.get("ident", "fresh"))
    out, argpos = impl["out"], impl["argpos"]
    fails = []
    if not np.isfinite(out).all():
        fails.append("non-finite")
    else:
        eq = impl["equiv"]
        for j, p in enumerate(tgt):
            a = eq[j]
            d_new = np.linalg.norm(out[j] - argpos[a])
            d_old = np.linalg.norm(np.array(p) - np.array(refpos[a]))
            if abs(d_new - abs(s) * d_old) > TOL * max(1.0, d_old):
                fails.append("anchor-distance")
                break
        else:
            for j in range(len(tgt)):
                for k in range(j + 1, len(tgt)):
                    if eq[j] == eq[k]:
                        dn = np.linalg.norm(out[j] - out[k])
                        do = np.linalg.norm(np.array(tgt[j]) - np.array(tgt[k]))
                        if abs(dn - abs(s) * do) > TOL * max(1.0, do):
                            fails.append("same-anchor-shape")
                            break
                if fails:
                    break
    if case["mode"] == "local" and not fails and n >= 3:
        # displace one more atom; mapped atoms whose dependency set does not contain it must not move
        k = case["moved"]
        case2 = dict(case)
        new2 = [list(p) for p in case["newpos"]]
        new2[k] = [new2[k][i] + case["delta"][i] for i in range(3)]
        case2["newpos"] = new2
        case2["mode"] = "deform"
        impl2 = E.safe_run(ctx, case2)
        if impl2 is None:
            return
        for j in range(len(tgt)):
            a = impl["equiv"][j]
            dep = {a, *sorted(nb[a])[:2]}
            if k not in dep:
                ctx.count("locality-checked")
                if np.abs(impl2["out"][j] - out[j]).max() > 1e-12:
                    fails.append("not-local")
                    break
            else:
                ctx.count("locality-dependent")
        E.ask_model(ctx, case2, impl2, impl2["argpos"], impl2["draws_call"], impl2["out"], "map(deformed+1)")
    if not impl["inputs_unchanged"]:
        fails.append("inputs-modified")
    if not impl["earlier_intact"]:
        # the molecule returned by an EARLIER call of the same map (kept by the caller) changed when the map
        # was applied again: what was returned for that conformation no longer satisfies the law
        fails.append("earlier-result-changed-by-later-call")
    ctx.oracle_ok(len(tgt))
    for f in fails:
        ctx.oracle_fail(f"exchange_map:{f}:{case['cls']}", case, {"out": out})
    E.ask_model(ctx, case, impl, argpos, impl["draws_call"], out, "map(deformed)")
