"""C14 — incomplete or truncated .gro output is never accepted as a valid system.

Cases:
  {"kind": "crash", "ops": [...], "valid": bool}
        real GroFile session; the file is flushed and copied after EVERY `write` call of the library
        (header pieces, each atom line and its terminator, the count back-fill, the lattice text, its
        terminator) and after every client operation.
  {"kind": "prefix", "file": <shipped basename>, "ks": "all" | "sample"}
  {"kind": "prefix", "ops": [...], "ks": "all"}
        every byte prefix of a complete file.
  {"kind": "empty", "ops": [setters..., ["x"]]}
        a session closed before any record (count undeclared: "Closing an empty file"; or declared): whatever is
        on disk afterwards must be rejected by GroFile(path); compared with the model (errors, bytes, verdict).
"""
import hashlib
import os

from ..common import hexs
from .. import grogen as G

RULE = ("crash: valid writer sessions (1..40 records, velocities on/off, count declared or back-filled, position "
        "formats d=1..6, titles, boxes); a crash point = the file after any single `write` call of the library or after "
        "any client op, incl. the three writes inside close (count back-fill, lattice text, terminator); plus a few "
        "sessions outside the quantifier (more records than declared, numeric names) compared with the model only. "
        "prefix: EVERY byte prefix of every shipped .gro (quick: files <= 20 kB; thorough: <= 100 kB) and of generated "
        "complete files with/without velocities. empty: sessions of setters only followed by close() (count "
        "undeclared / declared 0 / declared k; also abandoned without close): the file left behind must be rejected. "
        "Non-trivial = every crash point / prefix evaluated on a file with "
        ">= 1 atom and every empty-session case; distinct by canonical hash of the case.")


def generate(ctx):
    rng = ctx.rng
    # smallest sessions first: declared / back-filled, with / without velocities
    for declared in (False, True):
        for vel in (False, True):
            r = [1, "RES", "A1", 1, 0.125, -0.0004, 1.5] + ([0.25, -0.5, 0.0625] if vel else [])
            ops = ([["n", 2]] if declared else []) + [["b3", [1.0, 2.0, 3.0]], ["w", r], ["w", r], ["x"]]
            yield {"kind": "crash", "ops": ops, "valid": True}
            yield {"kind": "prefix", "ops": ops, "ks": "all"}
    for i in range(ctx.n(150, 3000)):
        k = rng.random()
        nrec = rng.randint(1, 4) if k < 0.5 else rng.randint(5, 15) if k < 0.9 else rng.randint(16, 40)
        ops = G.gen_valid_session(rng, nrec=nrec, small_numbers=True)
        if rng.random() < 0.2:
            # names that read as numbers: an atom line mistaken for the box line would parse
            for o in ops:
                if o[0] == "w":
                    o[1][1] = rng.choice(["1", "0", "e5", "7", "12", ".5"])
                    o[1][2] = rng.choice(["1", "2", "33", "0"])
        if rng.random() < 0.15:
            # names handed over padded with blanks to more than five characters (cut to the five columns, as any long
            # name): every record still takes the same number of bytes (seed C14-12: the length test made on the STRIPPED
            # name, the unstripped one written — one record a byte longer, and the reader takes its last digits for the box)
            ws = [o for o in ops if o[0] == "w"]
            for o in ws[1:]:
                if rng.random() < 0.6:
                    j = rng.choice([1, 2])
                    o[1][j] = str(o[1][j])[:4] + " " * rng.randint(2, 4)
        yield {"kind": "crash", "ops": ops, "valid": True}
    # outside the quantifier: more records than declared, with names that read as numbers
    for i in range(ctx.n(30, 600)):
        nrec = rng.randint(2, 5)
        ops = G.gen_valid_session(rng, nrec=nrec, small_numbers=True)
        # default format and a non-empty title: D2 / D13 are C13's findings
        ops = [o for o in ops if o[0] not in ("n", "f") and not (o[0] == "c" and o[1].strip("\n") == "")]
        ops.insert(0, ["n", rng.randint(0, nrec - 1)])
        for o in ops:
            if o[0] == "w" and rng.random() < 0.7:
                o[1][1] = rng.choice(["1", "0", "e5", "7", "12", ".5"])
                o[1][2] = rng.choice(["1", "2", "33", "0"])
        if rng.random() < 0.5:
            ops = ops[:-1]
        yield {"kind": "crash", "ops": ops, "valid": False}
    # IN the quantifier ("stops at any point before it is closed, after ANY number of atom records, with the atom
    # count declared or not"): the count was declared as N, the writer produced MORE than N records and stopped
    # before close (close would have raised the mismatch).  With ordinary residue / atom names the record at the box
    # position is not a box, so every such file must be rejected (seed C14-9: touching %10.5f box fields recognised
    # by their five decimals — which an atom record written with position_format (10, 5) also has)
    for i in range(ctx.n(60, 1200)):
        nrec = rng.randint(2, 6) if rng.random() < 0.8 else rng.randint(7, 25)
        d = rng.choice([3, 5, 5, 5, 4, 6, 2])
        vel = rng.random() < 0.4
        ops = []
        if d != 3 or rng.random() < 0.5:
            ops.append(["f", d + 5, d])
        if rng.random() < 0.6:
            ops.append(["c", G.gen_title(rng)])
        if rng.random() < 0.7:
            ops.append(G.gen_box(rng))
        ops.append(["n", rng.randint(0, nrec - 1)])
        rng.shuffle(ops)
        for _ in range(nrec):
            r = G.gen_record(rng, d + 5, d, vel, (rng.randint(0, 99998), rng.randint(0, 99998)))
            r[1] = rng.choice(["RES", "SOL", "DPPC", "LIG", "POPC", "W"])
            r[2] = rng.choice(["A1", "C12", "OW", "HW1", "N", "CA", "P"])
            ops.append(["w", r])
        yield {"kind": "overcount", "ops": ops}
    # sessions closed before any record
    for pre in ([], [["c", "t"]], [["n", 0]], [["n", 3]], [["f", 9, 4], ["b3", [1.0, 2.0, 3.0]]]):
        yield {"kind": "empty", "ops": pre + [["x"]]}
    for i in range(ctx.n(60, 1000)):
        ops = [o for o in G.gen_valid_session(rng, nrec=1) if o[0] not in ("w", "n")]
        j = rng.randrange(4)
        if j == 1:
            ops.insert(rng.randrange(len(ops)), ["n", 0])
        elif j == 2:
            ops.insert(rng.randrange(len(ops)), ["n", rng.randint(1, 5)])
        elif j == 3:
            ops = ops + [["x"]]
        yield {"kind": "empty", "ops": ops}
    for n in ([100000] if ctx.quick() else [99999, 100000, 100001, 250000]):
        yield {"kind": "big", "n": n}
    files = G.shipped_gro_files()
    lim = 20000 if ctx.quick() else 100000
    for f in files:
        size = os.path.getsize(f)
        if size == 0:
            continue
        if size <= lim:
            yield {"kind": "prefix", "file": os.path.basename(f), "ks": "all"}
        else:
            yield {"kind": "prefix", "file": os.path.basename(f), "ks": "sample", "n": ctx.n(700, 6000),
                   "seed": rng.getrandbits(32)}
    for i in range(ctx.n(60, 1500)):
        k = rng.random()
        nrec = rng.randint(1, 3) if k < 0.5 else rng.randint(4, 12)
        yield {"kind": "prefix", "ops": G.gen_valid_session(rng, nrec=nrec, small_numbers=True), "ks": "all"}
    # files whose lines take more BYTES than characters: CRLF line ends; one non-ASCII residue name on every line
    for i in range(ctx.n(24, 400)):
        nrec = rng.randint(1, 3) if rng.random() < 0.4 else rng.randint(4, 30)
        ops = G.gen_valid_session(rng, nrec=nrec, small_numbers=True)
        if i % 2 == 0:
            yield {"kind": "prefix", "ops": ops, "ks": "all", "variant": "crlf"}
        else:
            rn = rng.choice(["LÍP", "Å", "SØL", "ÑA"])
            for o in ops:
                if o[0] == "w":
                    o[1][1] = rn
            yield {"kind": "prefix", "ops": ops, "ks": "all", "variant": "nonascii-resname"}


# ----------------------------------------------------------------------------- helpers

def _verdict(path, data):
    """open + readlines on the given bytes -> ("E", cls) | ("R", cls, hdr) | ("A", recs, box)"""
    G.write_file(path, data)
    v, back = _verdict_of(G.read_back(path))
    if v[0] == "E":
        _vcount[0] += 1
        if _vcount[0] % 3 == 0:
            # a file GroFile refuses must be refused by the entry points that pick the parser by extension as well
            alt = G.read_back_dispatch(path)
            if alt is not None:
                return ("A", [("accepted-through", alt["via"], alt["records"])], []), back
    return v, back


_vcount = [0]


def _verdict_of(back):
    if "open_err" in back:
        return ("E", back["open_err"]), back
    if "rerr" in back:
        return ("R", back["rerr"]), back
    return ("A", back["recs"], back["box"]), back


def digest_of(ops):
    return hashlib.sha1(repr(ops).encode()).hexdigest().lstrip("0123456789")


def _same_recs(a, b):
    return len(a) == len(b) and all(G.same_rec(x, y) for x, y in zip(a, b))


# ----------------------------------------------------------------------------- crash points

def _eval_crash(ctx, case):
    ops = case["ops"]
    valid = bool(case.get("valid"))
    nrec = sum(1 for o in ops if o[0] == "w")
    path = os.path.join(ctx.scratch, f"c14-crash-{ctx.evaluations}.gro")
    ppath = os.path.join(ctx.scratch, "c14-crash-prefix.gro")
    if valid and ops and ops[-1][0] == "x":
        # the output path already holds the COMPLETE result of an earlier, identical run (a job that is re-run
        # over its own output): an interrupted rewrite must still leave something the reader rejects — opening
        # for writing empties the file, nothing of the old run may survive behind the new prefix
        # (seed C14-8: O_TRUNC masked on open, truncation deferred to close)
        G.run_session(path, ops)
        ctx.count("crash-over-a-previous-complete-file")
    errs, final, snaps = G.run_session(path, ops, snap=True)
    os.unlink(path)
    ctx.count("crash-session-valid" if valid else "crash-session-outside-quantifier")
    declared = any(o[0] == "n" for o in ops)
    ctx.count("crash-count-declared" if declared else "crash-count-backfilled")

    # position of the lattice text write inside close
    close_i = len(ops) - 1 if ops and ops[-1][0] == "x" else None
    close_writes = [s for s in snaps if s[0] == close_i and s[1] is not None] if close_i is not None else []
    # where the box line starts in the complete file: a crash point inside close() is "before the box" as long as the
    # file is not LONGER than that (the count back-fill rewrites bytes in place).  Judged by bytes, not by the number
    # of `write` calls close() happens to make (benign change C14-2: box text and terminator in one call)
    box_start = None
    if close_i is not None and final.endswith(b"\n"):
        box_start = final[:-1].rfind(b"\n") + 1
    complete, _ = _verdict(ppath, final)

    if valid:
        if any(e is not None for e in errs):
            # not a C14 matter (C13 reports it): without a clean session there is no 'complete file'
            ctx.count("crash-session-raised")
            ctx.case(case, nontrivial=False)
            valid = False
        elif complete[0] != "A" or len(complete[1]) != nrec:
            ctx.oracle_fail("complete-file-not-accepted", case, {"verdict": complete[:2]})
            valid = False

    if valid:
        # the writer is abandoned (never closed, object garbage-collected) after k records
        body = [o for o in ops if o[0] != "x"]
        nw = [i for i, o in enumerate(body) if o[0] == "w"]
        cut = nw[(len(digest_of(ops)) + nrec) % len(nw)] + 1 if nw else len(body)
        for upto in sorted({cut, len(body)}):
            apath = os.path.join(ctx.scratch, "c14-abandoned.gro")
            data = G.run_abandoned(apath, body[:upto])
            v, _ = _verdict(ppath, data)
            os.unlink(apath)
            ctx.oracle_ok()
            ctx.count("crash-abandoned-writer:" + ("rejected-" + v[1] if v[0] == "E" else "ACCEPTED"))
            if v[0] != "E":
                ctx.oracle_fail(f"crash-point-accepted:writer-abandoned-without-close:"
                                f"{'declared' if declared else 'backfilled'}", case,
                                {"ops_applied": upto, "bytes": data, "verdict": v[:2]})

    seen = {}
    digest = hashlib.sha1(repr(ops).encode()).hexdigest()
    for (oi, wi, data) in snaps:
        if data in seen:
            v = seen[data]
        else:
            v, _ = _verdict(ppath, data)
            seen[data] = v
        where = ("after-op-" + ops[oi][0]) if wi is None else ("in-" + ops[oi][0])
        before_box = (close_i is None or oi < close_i or (box_start is not None and len(data) <= box_start)
                      or (oi == close_i and wi is None and not close_writes))
        ctx.case({"crash": digest, "at": [oi, wi]}, nontrivial=nrec >= 1 and valid,
                 sample={"kind": "crash", "ops_head": ops[:3], "nops": len(ops), "at": [oi, wi], "verdict": v[:2]})
        if not valid:
            continue
        ctx.oracle_ok()
        if before_box:
            ctx.count("crash-before-box:" + where)
            if v[0] != "E":
                ctx.oracle_fail(f"crash-point-accepted:{where}:{'declared' if declared else 'backfilled'}", case,
                                {"at": [oi, wi], "bytes": data, "verdict": v[:2]})
            else:
                ctx.count("crash-rejected-" + v[1])
        else:
            ctx.count("crash-at-or-after-lattice-text:" + where)
            if v[0] == "A":
                if not _same_recs(v[1], complete[1]):
                    ctx.oracle_fail("crash-point-accepted-with-different-records", case, {"at": [oi, wi], "bytes": data})
            elif v[0] == "R":
                ctx.oracle_fail("crash-point-opens-but-readlines-raises", case, {"at": [oi, wi], "bytes": data})

    if case.get("valid") and any(e is not None for e in errs):
        return      # a valid session that raises is C13's finding (D2); nothing to compare here
    # ---- model: same file contents at op granularity and at the parts of close; same verdicts
    after_op = {oi: data for (oi, wi, data) in snaps if wi is None}
    expect = []
    for i, op in enumerate(ops):
        if op[0] == "x":
            ws = [d for (oi, wi, d) in snaps if oi == i and wi is not None]
            prev = after_op[i - 1] if i > 0 else b""
            if errs[i] is None and len(ws) >= 2 + (0 if declared else 1):
                expect.append(ws[-3] if len(ws) >= 3 else prev)     # count back-filled / verified
                expect.append(ws[-2])                                 # lattice text
            elif errs[i] is None and ws:
                # close() made fewer `write` calls than the model has parts: the intermediate states do not exist
                # on disk, nothing to compare them with (the state after the op is compared below)
                ctx.count("close-parts-coarser-than-modelled")
                expect.append(None)
                expect.append(None)
            elif errs[i] is None:
                expect.append(prev)                                   # closing an empty file
            else:
                expect.append(None)                                   # failed close: parts not compared
        expect.append(after_op[i])

    def cb(status, toks, case, expect=expect, ops=ops, errs=errs):
        t = G.Toks(toks)
        m = [t.bytes().encode("latin-1") for _ in range(t.int())]
        exp = list(expect)
        if len(m) != len(exp):
            # a failed close yields one part on the model side
            ctx.disagree(case, "number of snapshots", len(exp), len(m))
            return
        for a, b in zip(exp, m):
            if a is not None and a != b:
                ctx.disagree(case, "file contents at a crash point", a.decode("latin-1"), b.decode("latin-1"))
                return
    # a failing close produces exactly one 'part' entry on both sides (see Gro.snapshots)
    ctx.model.ask("gro_snap", G.ops_tokens(ops), cb, case)

    for data, v in seen.items():
        if not G.modelled_text(data):
            ctx.count("skipped-non-ascii-file")
            continue

        def cb2(status, toks, case, v=v, data=data):
            m = G.parse_read_response(status, toks)
            if m.get("open_err") == "unmodelled" or m.get("rerr") == "unmodelled":
                ctx.count("skipped-unmodelled")
                return
            if "open_err" in m:
                mv = ("E", m["open_err"])
            elif "rerr" in m:
                mv = ("R", m["rerr"])
            else:
                mv = ("A", m["recs"], m["box"])
            same = mv[:1] == v[:1] and (
                mv[1] == v[1] if v[0] != "A" else
                (_same_recs(mv[1], v[1]) and all(G.same_float(a, b) for a, b in zip(mv[2], v[2]))))
            if not same:
                ctx.disagree(case, "reader verdict on a crash-point file", {"bytes": data.decode("latin-1"), "v": v[:2]},
                             mv[:2])
        ctx.model.ask("gro_read", hexs(data), cb2, case)


# ----------------------------------------------------------------------------- more records than declared, no close

def _eval_overcount(ctx, case):
    ops = case["ops"]
    path = os.path.join(ctx.scratch, f"c14-over-{ctx.evaluations}.gro")
    ppath = os.path.join(ctx.scratch, "c14-crash-prefix.gro")
    errs, final, snaps = G.run_session(path, ops, snap=True)
    try:
        os.unlink(path)
    except OSError:
        pass
    nrec = sum(1 for o in ops if o[0] == "w")
    declared = next(o[1] for o in ops if o[0] == "n")
    fmt = next(((o[1], o[2]) for o in ops if o[0] == "f"), (8, 3))
    vel = any(o[0] == "w" and len(o[1]) == 10 for o in ops)
    ctx.count("overcount-format:%d.%d:%s" % (fmt[0], fmt[1], "vel" if vel else "novel"))
    if any(e is not None for e in errs):
        # (a record refused by the writer: C13's matter; the file so far is still an unclosed one)
        ctx.count("overcount-session-raised")
    digest = hashlib.sha1(repr(ops).encode()).hexdigest()
    seen = {}
    apath = os.path.join(ctx.scratch, "c14-abandoned.gro")
    datas = [(oi, wi, d) for (oi, wi, d) in snaps] + [("abandoned", None, G.run_abandoned(apath, ops))]
    try:
        os.unlink(apath)
    except OSError:
        pass
    for (oi, wi, data) in datas:
        if data in seen:
            v = seen[data]
        else:
            v, _ = _verdict(ppath, data)
            seen[data] = v
        ctx.case({"overcount": digest, "at": [oi, wi]}, nontrivial=True,
                 sample={"kind": "overcount", "declared": declared, "records": nrec, "at": [oi, wi], "verdict": v[:2]})
        ctx.oracle_ok()
        if v[0] != "E":
            ctx.oracle_fail(f"crash-point-accepted:more-records-than-declared:%d.%d:%s" %
                            (fmt[0], fmt[1], "vel" if vel else "novel"), case,
                            {"at": [oi, wi], "declared": declared, "bytes": data, "verdict": v[:2]})
        else:
            ctx.count("overcount-rejected-" + v[1])
    for data, v in seen.items():
        if not G.modelled_text(data):
            continue

        def cb2(status, toks, case, v=v, data=data):
            m = G.parse_read_response(status, toks)
            if m.get("open_err") == "unmodelled" or m.get("rerr") == "unmodelled":
                ctx.count("skipped-unmodelled")
                return
            mv = ("E", m["open_err"]) if "open_err" in m else ("R", m["rerr"]) if "rerr" in m else ("A",)
            if mv[:1] != v[:1] or (v[0] != "A" and mv[1] != v[1]):
                ctx.disagree(case, "reader verdict on an over-count file", {"bytes": data.decode("latin-1"), "v": v[:2]},
                             mv[:2])
        ctx.model.ask("gro_read", hexs(data), cb2, case)


# ----------------------------------------------------------------------------- byte prefixes

def _eval_prefix(ctx, case):
    import random
    ppath = os.path.join(ctx.scratch, "c14-prefix.gro")
    if "file" in case:
        src = [f for f in G.shipped_gro_files() if os.path.basename(f) == case["file"]]
        if not src:
            raise ValueError("shipped file not found: " + case["file"])
        data = G.read_bytes(src[0])
        ctx.count("prefix-file-shipped")
    else:
        path = os.path.join(ctx.scratch, f"c14-full-{ctx.evaluations}.gro")
        errs, data, _ = G.run_session(path, case["ops"])
        os.unlink(path)
        if any(e is not None for e in errs):
            ctx.count("prefix-session-raised")
            ctx.case(case, nontrivial=False)
            return
        ctx.count("prefix-file-generated")
    variant = case.get("variant")
    if variant == "crlf":
        # the same complete file with CRLF line ends (written on another platform): bytes per line != characters
        # per line; the reader (text mode, universal newlines, byte offsets from tell()) accepts it, and every
        # truncation before its box line must still be rejected (seed C14-5: line stride from len(first_line))
        data = data.replace(b"\n", b"\r\n")
        ctx.count("prefix-variant:crlf")
    elif variant:
        ctx.count("prefix-variant:" + variant)
    complete, back = _verdict(ppath, data)
    if complete[0] != "A":
        if "file" in case:
            ctx.count("prefix-complete-file-rejected")
            ctx.case(case, nontrivial=False)
        else:
            ctx.oracle_fail("complete-file-not-accepted", case, {"verdict": complete[:2]})
        return
    natoms = back["natoms"]
    if back["init"] is G.MISSING or back["size"] is G.MISSING:
        # the reader's private offsets are not available under their names: take them from the bytes (two header
        # lines, then lines of the length of the first atom line)
        l0 = data.find(b"\n") + 1
        l1 = data.find(b"\n", l0) + 1
        back = dict(back, init=l1, size=data.find(b"\n", l1) + 1 - l1)
        ctx.count("private-state-not-compared:reader-offsets")
    b = back["init"] + natoms * back["size"]                    # offset of the lattice line (reader's own view)
    body = data[:-1] if data.endswith(b"\n") else data
    b_indep = body.rfind(b"\n") + 1                              # independent: start of the last line
    if b != b_indep:
        ctx.count("prefix-file-with-trailing-lines")
    # independent of the reader's bookkeeping: the box line is line number natoms + 2 of the complete file
    starts = [0] + [i + 1 for i, c in enumerate(data) if c == 10]
    if 2 + natoms < len(starts):
        b_lines = starts[2 + natoms]
        if b_lines != b:
            ctx.count("prefix-reader-offset-differs-from-line-count")
        b = b_lines
    ctx.count("prefix-velocities" if back["vel"] else "prefix-no-velocities")
    if case["ks"] == "all":
        ks = list(range(0, len(data) + 1))
    else:
        r = random.Random(case["seed"])
        ks = sorted(set([0, 1, len(data) - 1, len(data), b - 1, b, b + 1, back["init"] - 1, back["init"], back["init"] + 1]
                        + list(range(0, min(400, len(data))))
                        + list(range(max(0, b - 40), len(data) + 1))
                        + [r.randrange(len(data)) for _ in range(int(case["n"]))]))
    impl = {}
    digest = hashlib.sha1(data).hexdigest()
    G.write_file(ppath, data)
    for k in sorted(ks, reverse=True):
        os.truncate(ppath, k)                                    # the same file, cut back step by step
        G.pin_mtime(ppath)
        v, _ = _verdict_of(G.read_back(ppath))
        impl[k] = v
        nontriv = natoms >= 1
        ctx.case({"prefix-of": digest, "k": k}, nontrivial=nontriv,
                 sample={"kind": "prefix", "file": case.get("file", "<generated>"), "k": k, "len": len(data),
                         "box_offset": b, "verdict": v[:2]})
        ctx.oracle_ok()
        if k <= b:
            if v[0] != "E":
                ctx.oracle_fail("prefix-before-box-accepted", case, {"k": k, "box_offset": b, "verdict": v[:2],
                                                                       "prefix_tail": data[max(0, k - 80):k]})
            else:
                ctx.count("prefix-before-box-rejected-" + v[1])
        else:
            if v[0] == "E":
                ctx.count("prefix-in-box-line-rejected-" + v[1])
            elif v[0] == "R":
                ctx.oracle_fail("prefix-opens-but-readlines-raises", case, {"k": k, "verdict": v[:2]})
            else:
                ctx.count("prefix-in-box-line-accepted")
                if not _same_recs(v[1], complete[1]):
                    ctx.oracle_fail("prefix-accepted-with-different-records", case, {"k": k, "box_offset": b})
                elif not all(G.same_float(x, y) for x, y in zip(v[2], complete[2])):
                    ctx.count("prefix-accepted-with-different-box")

    if variant:
        # oracle only: universal newlines are not modelled, and a cut inside a multi-byte character raises
        # UnicodeDecodeError where the byte model says OSError (both are rejections; the property asks no more)
        ctx.count("prefix-variant-not-sent-to-the-model")
        return
    if not G.modelled_text(data):
        ctx.count("skipped-non-ascii-file")
        return
    # the model is asked for every prefix of small files, for a sample of the large ones
    if len(ks) > 25000:
        r = random.Random(len(data))
        mks = sorted(set(ks[:400] + [k for k in ks if k >= b - 150] + r.sample(ks, 4000)))
    else:
        mks = ks

    def cb(status, toks, case, impl=impl, mks=mks, complete=complete):
        t = G.Toks(toks)
        for k in mks:
            kind = t.next()
            v = impl[k]
            if kind in ("E", "R"):
                e = t.next()
                if e == "unmodelled":
                    ctx.count("skipped-unmodelled")
                    continue
                if (kind, e) != v[:2]:
                    ctx.disagree(case, f"reader verdict on prefix k={k}", v[:2], (kind, e))
                    return
            else:
                same = t.int()
                box = t.box()
                if v[0] != "A":
                    ctx.disagree(case, f"reader verdict on prefix k={k}", v[:2], ("A", same))
                    return
                if bool(same) != _same_recs(v[1], complete[1]) or not all(
                        G.same_float(x, y) for x, y in zip(box, v[2])):
                    ctx.disagree(case, f"accepted prefix k={k}: records/box", {"same": _same_recs(v[1], complete[1]),
                                                                              "box": v[2]}, {"same": same, "box": box})
                    return
    ctx.model.ask("gro_prefix", hexs(data) + " " + " ".join([str(len(mks))] + [str(k) for k in mks]), cb, case)


def _eval_big(ctx, case):
    """Files at and just above 100000 atoms (the five-digit wrap, and a natural place for a 'large system'
    special case — seed C14-4: box line checked lazily for >= 100000 atoms).  Oracle only (the byte-list
    model is not asked to chew 4.5 MB): every truncation before the box line must be rejected by
    GroFile(path); the complete file must be accepted with n records."""
    n = int(case["n"])
    lines = ["big system", "%5d" % n if n < 100000 else str(n)]
    for i in range(n):
        lines.append("%5d%-5s%5s%5d%8.3f%8.3f%8.3f" % ((i // 3 + 1) % 100000, "SOL", ("OW", "HW1", "HW2")[i % 3],
                                                       (i + 1) % 100000, (i % 97) * 0.1, (i % 89) * 0.1, (i % 83) * 0.1))
    body = ("\n".join(lines) + "\n").encode()
    box = b"  10.00000  10.00000  10.00000\n"
    full = body + box
    path = os.path.join(ctx.scratch, "c14-big.gro")
    from gaddlemaps.parsers import GroFile
    import warnings

    def opens(data):
        G.write_file(path, data)
        with warnings.catch_warnings():
            warnings.simplefilter("ignore")
            try:
                g = GroFile(path)
            except Exception as e:   # noqa: BLE001
                return ("E", type(e).__name__)
            try:
                k = sum(1 for _ in g)
                return ("A", k)
            except Exception as e:   # noqa: BLE001
                return ("R", type(e).__name__)
            finally:
                g.close()
    ctx.case({"big": n}, nontrivial=True, sample={"kind": "big", "n": n})
    ctx.count(f"big:n={n}")
    v = opens(full)
    ctx.oracle_ok()
    if v != ("A", n):
        ctx.oracle_fail("complete-file-not-accepted:big", case, {"verdict": v})
    line = len(lines[2]) + 1
    cuts = {"before-box-line": len(body), "mid-last-atom-line": len(body) - line // 2,
            "one-atom-line-short": len(body) - line, "half-file": len(body) // 2,
            "box-line-started": len(body) + 5}
    # the unclosed writer: placeholder count, all n lines, no box line
    unclosed = ("\n".join([lines[0], " " * 9] + lines[2:]) + "\n").encode()
    for name, data in [(k, full[:c]) for k, c in cuts.items()] + [("writer-never-closed", unclosed)]:
        v = opens(data)
        ctx.oracle_ok()
        ctx.count(f"big:{name}:" + ("rejected" if v[0] == "E" else "opened"))
        if name == "box-line-started":
            if v[0] == "A" and v[1] != n:
                ctx.oracle_fail("prefix-accepted-with-different-records:big", case, {"cut": name, "verdict": v})
        elif v[0] != "E":
            ctx.oracle_fail(f"prefix-before-box-accepted:big:{name}", case, {"cut": name, "n": n, "verdict": v})
    os.unlink(path)


def _eval_empty(ctx, case):
    """a writer session without any record, closed (or closed twice): the reader must reject what is left"""
    ops = case["ops"]
    path = os.path.join(ctx.scratch, f"c14-empty-{ctx.evaluations % 3}.gro")
    ppath = os.path.join(ctx.scratch, "c14-empty-reread.gro")
    errs, data, _ = G.run_session(path, ops)
    os.unlink(path)
    decl = [o[1] for o in ops if o[0] == "n"]
    kind = "undeclared" if not decl else ("declared-0" if decl[-1] == 0 else "declared-k")
    ctx.case(case, nontrivial=True, sample={"kind": "empty", "ops": ops[:4], "count": kind})
    close_err = next((e for o, e in zip(ops, errs) if o[0] == "x"), None)
    ctx.count(f"empty-session:{kind}:close-" + (close_err or "ok"))
    ctx.count("empty-session:bytes-written" if data else "empty-session:nothing-written")
    v, _ = _verdict(ppath, data)
    ctx.oracle_ok()
    if v[0] != "E":
        ctx.oracle_fail(f"empty-session-accepted:{kind}", case, {"bytes": data, "verdict": v[:2]})
    else:
        ctx.count("empty-session-rejected-" + v[1])
    # the same session abandoned instead of closed
    body = [o for o in ops if o[0] != "x"]
    apath = os.path.join(ctx.scratch, "c14-abandoned.gro")
    adata = G.run_abandoned(apath, body)
    os.unlink(apath)
    va, _ = _verdict(ppath, adata)
    ctx.oracle_ok()
    if va[0] != "E":
        ctx.oracle_fail(f"empty-session-accepted:abandoned:{kind}", case, {"bytes": adata, "verdict": va[:2]})

    def cb(status, toks, case, errs=errs, data=data):
        t = G.Toks(toks)
        merrs = [t.next() for _ in range(t.int())]
        merrs = [None if e == "-" else e for e in merrs]
        mbytes = t.bytes().encode("latin-1")
        if merrs != errs:
            ctx.disagree(case, "exceptions raised by the ops of an empty session", errs, merrs)
        elif mbytes != data:
            ctx.disagree(case, "bytes left by an empty session", data.decode("latin-1"), mbytes.decode("latin-1"))
    ctx.model.ask("gro_write", G.ops_tokens(ops), cb, case)

    def cb2(status, toks, case, v=v):
        m = G.parse_read_response(status, toks)
        mv = ("E", m["open_err"]) if "open_err" in m else ("A",)
        if mv[:2] != v[:2]:
            ctx.disagree(case, "reader verdict on the file of an empty session", v[:2], mv)
    ctx.model.ask("gro_read", hexs(data), cb2, case)


def evaluate(ctx, case):
    if case["kind"] == "empty":
        return _eval_empty(ctx, case)
    if case["kind"] == "overcount":
        return _eval_overcount(ctx, case)
    if case["kind"] == "big":
        return _eval_big(ctx, case)
    if case["kind"] == "crash":
        return _eval_crash(ctx, case)
    if case["kind"] == "prefix":
        return _eval_prefix(ctx, case)
    raise ValueError("unknown case kind")
