"""C18 — copies are isolated, views write through, rigid operations preserve shape.

Case: {"kind": "seq", "stream": "exact"|"float", "labels": "deep"|"any", "setup": seed,
       "steps": [seed, …]}
Everything (species, files, which object an operation hits, its arguments) is derived from the
seeds, so a case replays exactly and shrinks by deleting steps.

Per case the real objects are driven in-process and the same history is sent as ONE `heapseq`
request to the Lean heap model; after every operation the outcome (ok / exception class) and the
observation of every live object are compared (bit-exactly in the exact stream: dyadic
coordinates, quarter-turn rotations; 1e-9 in the float stream).

Oracle (the property's clauses on the implementation, independent of the model):
  isolation     an operation on an object changes no coordinate / velocity / number / gro label of any
                object outside its provenance class (class = an object with its live residues and
                atom views; copy, deep_copy, System hand-outs and Alignment copies start a new
                class) and no topology label of an object with another topology (deep copies and
                independently loaded molecules); allocation-only operations change nothing at all;
                no coordinate array memory is shared between classes; arrays handed in stay intact
  write-through after an assignment through `mol[i]`, an iteration view or `res[i]` the parent shows it
  rigid         move / move_to / rotate keep all pairwise distances (whole molecule, across
                residues), centre moves by d / to p / not at all, to 1e-9
"""
import itertools
import os
import random

import numpy as np

from .. import heapgen as hg
from ..heapgen import World, tok_v3, tok_gro

RULE = ("operation sequences (<= 40 quick / <= 200 thorough) over {copy (incl. Alignment start/end), deep_copy, "
        "System hand-outs, mol[i] / iteration views, residues, res[i], move, move_to, rotate, set positions / "
        "velocities / ids / resids / resnames, attribute assignment through views} on 1-3 generated species "
        "(1-8 atoms, 1-3 residues, with/without velocities); exact stream = dyadic coordinates + quarter turns "
        "(bit-exact), float stream = random doubles + rotation_matrix (1e-9). Non-trivial = a copy-type op "
        "succeeded and >= 2 mutating ops succeeded afterwards; distinct by hash of the case seeds.")

TOL = 1e-9

PRODUCERS = ("copy", "deepcopy", "molwith", "getatom", "iteratom", "getres")


def generate(ctx):
    rng = ctx.rng
    nseq = ctx.n(400, 2200)
    maxlen = 40 if ctx.quick() else 200
    for _ in range(nseq):
        nops = rng.randint(4, maxlen) if rng.random() < 0.8 else rng.randint(1, 6)
        yield {"kind": "seq",
               "stream": "exact" if rng.random() < 0.6 else "float",
               "labels": "any" if rng.random() < 0.12 else "deep",
               "setup": rng.getrandbits(40),
               "steps": [rng.getrandbits(40) for _ in range(nops)]}


# ----------------------------------------------------------------------------- setup

def setup_world(ctx, case):
    from gaddlemaps.components import Molecule, System
    rng = random.Random(case["setup"])
    stream = case["stream"]
    w = World(ctx, stream)
    d = os.path.join(ctx.scratch, "c18-%d-%d" % (case["setup"], ctx.evaluations))
    os.makedirs(d, exist_ok=True)
    nsp = rng.choice([1, 1, 2, 3])
    for s in range(nsp):
        sp = hg.gen_species(rng, hg.LETTERS[s], 1, 8)
        fitp = os.path.join(d, f"s{s}.itp")
        hg.write_itp(fitp, sp)
        with_vel = rng.random() < 0.5
        nmol = rng.randint(1, 3)
        lines, per_mol = [], []
        nres = len(sp["sizes"])
        for m in range(nmol):
            ml = hg.molecule_lines(rng, sp, stream, 1 + m * nres, 1 + m * len(sp["atoms"]), with_vel,
                                   centre=hg.vec(rng, "exact"))
            lines += ml
            per_mol.append([hg.parse_back(l) for l in ml])
        fgro = os.path.join(d, f"s{s}.gro")
        hg.write_gro(fgro, lines)
        if nmol == 1 and rng.random() < 0.5:
            mol = Molecule.from_files(fgro, fitp)
            w.add_loaded(mol, f"from_files(species {s})")
            ctx.count("load:from_files")
        else:
            syst = System(fgro, fitp)
            w.keep.append(syst)
            w.add_loaded(syst.different_molecules[0], f"System(species {s}).different_molecules[0]",
                         sys={"system": syst, "mols": per_mol, "sizes": sp["sizes"]})
            ctx.count("load:system")
        ctx.count("species:atoms=%d" % len(sp["atoms"]))
        ctx.count("species:residues=%d" % nres)
    return w


# ----------------------------------------------------------------------------- one step

def top_owners(w, t):
    return sum(1 for m in w.meta if m["kind"] == "mol" and m["t"] == t)


def class_has_mol(w, g):
    return any(m["kind"] == "mol" and m["g"] == g for m in w.meta)


def label_ok(w, i, mode):
    """may a label (resname / name) operation be aimed at env[i]?  In 'deep' mode only where the
    property claims isolation: sole owner of its topology, or a free-standing residue / atom."""
    if mode == "any":
        return True
    m = w.meta[i]
    if m["kind"] in ("mol", "atom"):
        return m["t"] is not None and top_owners(w, m["t"]) == 1
    return not class_has_mol(w, m["g"])


def choose_op(w, rng, i, mode):
    m = w.meta[i]
    k = m["kind"]
    crowded = len(w.env) >= 28
    ops = []

    def add(name, wt):
        ops.append((name, wt))
    if k == "mol":
        add("copy", 1.0 if crowded else 6.0)
        add("deepcopy", 0.6 if crowded else 4.0)
        if m.get("sys"):
            add("molwith", 0.6 if crowded else 5.0)
        add("getatom", 0.4 if crowded else 3.0)
        add("iteratom", 0.3 if crowded else 2.0)
        add("getres", 0.4 if crowded else 3.0)
        for name, wt in (("move", 5), ("moveto", 4), ("rotate", 5), ("setpos", 4), ("setvel", 3),
                         ("setids", 3), ("resids_l", 3), ("resids_i", 2)):
            add(name, wt)
        if label_ok(w, i, mode):
            add("resnames_l", 2.5)
            add("resnames_s", 1.5)
    elif k == "res":
        add("copy", 0.5 if crowded else 3.0)
        add("getatom", 0.3 if crowded else 2.0)
        for name, wt in (("move", 4), ("moveto", 3), ("rotate", 4), ("setpos", 3), ("setvel", 2),
                         ("setids", 2), ("resids_i", 2)):
            add(name, wt)
        if label_ok(w, i, mode):
            add("resnames_s", 2.0)
    elif k in ("agro", "atom"):
        add("copy", 0.5 if crowded else 2.0)
        add("set:pos", 5)
        add("set:vel", 3)
        add("set:atomid", 3)
        add("set:gro_resid", 1.0)
        if k == "atom":
            add("set:top_resid", 1.5)
        if label_ok(w, i, mode):
            add("set:resname", 1.5)
            add("set:name", 1.5)
    tot = sum(wt for _, wt in ops)
    x = rng.uniform(0, tot)
    for name, wt in ops:
        x -= wt
        if x <= 0:
            return name
    return ops[-1][0]


def natoms(o):
    return len(hg.gro_atoms(o))


def rand_name(rng, long_ok=False):
    n = rng.randint(1, 7 if long_ok else 5)
    return "".join(rng.choice("XYZWQ") for _ in range(n))


def do_step(ctx, w, rng, mode):
    """pick a live object and an operation; run it on the implementation; return a record for the
    oracle: dict(op, i, status, touched classes, details)"""
    from gaddlemaps import Alignment
    stream = w.stream
    i = rng.randrange(len(w.env))
    # favour molecules a little (most of the API surface)
    if w.meta[i]["kind"] != "mol" and rng.random() < 0.35:
        mols = [j for j, m in enumerate(w.meta) if m["kind"] == "mol"]
        i = rng.choice(mols)
    o = w.env[i]
    m = w.meta[i]
    kind = m["kind"]
    op = choose_op(w, rng, i, mode)
    rec = {"op": op, "i": i, "kind": kind, "g": m["g"],
           "t": m["t"] if kind in ("mol", "atom") else None, "alloc_only": op in PRODUCERS}
    n = natoms(o)
    if op == "copy" and kind == "mol" and rng.random() < 0.25:
        # copy(new_residues): the optional argument, with residues that are still OWNED by a live object — the
        # molecule's own, or those of another molecule with the same topology.  The result must be as isolated
        # from their owner as any other copy (Molecule.__init__ copies the residues it is given; seed C18-3).
        donors = [j for j, mj in enumerate(w.meta) if mj["kind"] == "mol" and mj["t"] == m["t"]]
        j = i if rng.random() < 0.5 else rng.choice(donors)
        donor = w.env[j]
        try:
            sizes = [len(r) for r in donor.residues]
            flat = [hg._gro_obs(ag) for r in donor.residues for ag in r]
            toks = f"molwith {i} " + hg.residues_tokens(flat, sizes)
            # only donors / receivers whose coordinate side still agrees with the topology (earlier label
            # assignments through residue views can leave a molecule that raises on every access: which
            # exception class copy() raises there is not the subject of this property)
            for obj in (o, donor):
                ob = hg.observe(obj)
                if ob[0] != "M" or any((g[1], g[2]) != (t[1], t[0]) for g, t in ob[2]):
                    toks = None
        except Exception:   # noqa: BLE001  (donor in an inconsistent state)
            toks = None
        if toks is not None:
            st, _ = w.run(toks, f"mol[{i}].copy(mol[{j}].residues)", lambda: o.copy(donor.residues),
                          {"g": w.new_g(), "t": m["t"], "parent": None, "k": None})
            rec["variant"] = "copy-with-residues-of-" + ("self" if j == i else "other")
            ctx.count("copy:with-live-residues:" + st)
            rec["status"] = st
            rec["op"] = "molwith"
            return rec
    if op == "copy":
        variant = rng.choice(["copy", "copy", "align-start", "align-end"]) if kind == "mol" else "copy"

        def fn():
            if variant == "copy":
                return o.copy()
            al = Alignment(start=o) if variant == "align-start" else Alignment(end=o)
            w.keep.append(al)
            return al.start if variant == "align-start" else al.end
        meta = {"g": w.new_g(), "t": m["t"] if kind in ("mol", "atom") else None, "parent": None, "k": None}
        st, _ = w.run(f"copy {i}", f"{kind}[{i}].{variant}()", fn, meta)
        rec["variant"] = variant
    elif op == "deepcopy":
        st, _ = w.run(f"deepcopy {i}", f"mol[{i}].deep_copy()", lambda: o.deep_copy(),
                      {"g": w.new_g(), "t": w.new_t(), "parent": None, "k": None})
    elif op == "molwith":
        sysd = m["sys"]
        syst = sysd["system"]
        j = rng.randrange(len(sysd["mols"]))
        variant = rng.choice(["getitem", "iter", "slice", "neg"])

        def fn():
            # the species' molecules are the only ones in its file: system index = j
            if variant == "getitem":
                return syst[j]
            if variant == "iter":
                return next(itertools.islice(iter(syst), j, None))
            if variant == "slice":
                return syst[j:j + 1][0]
            return syst[-1] if j == len(sysd["mols"]) - 1 else syst[j]
        toks = f"molwith {i} " + hg.residues_tokens(sysd["mols"][j], sysd["sizes"])
        st, _ = w.run(toks, f"system[{j}] via {variant}", fn,
                      {"g": w.new_g(), "t": m["t"], "parent": None, "k": None})
    elif op in ("getatom", "iteratom"):
        k = rng.randrange(n)
        if op == "getatom":
            fn = lambda: o[k]
        else:
            fn = lambda: next(itertools.islice(iter(o), k, None))
        st, _ = w.run(f"{op} {i} {k}", f"{kind}[{i}] {op} {k}", fn,
                      {"g": m["g"], "t": m["t"] if kind == "mol" else None, "parent": i, "k": k})
    elif op == "getres":
        r = rng.randrange(len(o.residues))
        st, _ = w.run(f"getres {i} {r}", f"mol[{i}].residues[{r}]", lambda: o.residues[r],
                      {"g": m["g"], "t": None, "parent": i, "k": None})
    elif op == "move":
        d = hg.vec(rng, stream)
        st, _ = w.run(f"move {i} {tok_v3(d)}", f"{kind}[{i}].move", lambda: o.move(w.ro(d)))
        rec["d"] = d
    elif op == "moveto":
        p = hg.vec(rng, stream)
        st, _ = w.run(f"moveto {i} {tok_v3(p)}", f"{kind}[{i}].move_to", lambda: o.move_to(w.ro(p)))
        rec["p"] = p
    elif op == "rotate":
        R = hg.rotation(rng, stream)
        st, _ = w.run(f"rotate {i} {tok_v3(R.flatten())}", f"{kind}[{i}].rotate", lambda: o.rotate(w.ro(R)))
        rec["R"] = R
    elif op == "setpos":
        nn = n if rng.random() < 0.93 else max(0, n + rng.choice([-1, 1]))
        P = [hg.vec(rng, stream) for _ in range(nn)]

        def fn():
            o.atoms_positions = w.ro(np.array(P, dtype=float).reshape(nn, 3))
        st, _ = w.run(f"setpos {i} {nn} " + " ".join(tok_v3(p) for p in P), f"{kind}[{i}].atoms_positions=", fn)
    elif op == "setvel":
        if rng.random() < 0.25:
            def fn():
                o.atoms_velocities = None
            st, _ = w.run(f"setvel {i} 0", f"{kind}[{i}].atoms_velocities=None", fn)
        else:
            nn = n if rng.random() < 0.93 else max(0, n + rng.choice([-1, 1]))
            V = [hg.velc(rng, stream) for _ in range(nn)]

            def fn():
                o.atoms_velocities = w.ro(np.array(V, dtype=float).reshape(nn, 3))
            st, _ = w.run(f"setvel {i} 1 {nn} " + " ".join(tok_v3(v) for v in V),
                          f"{kind}[{i}].atoms_velocities=", fn)
    elif op == "setids":
        nn = n if rng.random() < 0.93 else max(0, n + rng.choice([-1, 1]))
        ids = [rng.randint(0, 99999) for _ in range(nn)]

        def fn():
            o.atoms_ids = list(ids)
        st, _ = w.run(f"setids {i} {nn} " + " ".join(map(str, ids)), f"{kind}[{i}].atoms_ids=", fn)
    elif op == "resids_l":
        nr = len(o.residues)
        x = rng.random()
        nn = nr if x < 0.9 else (0 if x < 0.93 else nr + 1)
        l = [rng.randint(0, 9999) for _ in range(nn)]

        def fn():
            o.resids = list(l)
        st, _ = w.run(f"resids_l {i} {nn} " + " ".join(map(str, l)), f"mol[{i}].resids={l}", fn)
    elif op == "resids_i":
        v = rng.randint(0, 9999)

        def fn():
            if kind == "mol":
                o.resids = v
            else:
                o.resid = v
        st, _ = w.run(f"resids_i {i} {v}", f"{kind}[{i}].resid(s)={v}", fn)
    elif op == "resnames_l":
        nr = len(o.residues)
        x = rng.random()
        nn = nr if x < 0.9 else (0 if x < 0.93 else nr + 1)
        l = [rand_name(rng) for _ in range(nn)]

        def fn():
            o.resnames = list(l)
        st, _ = w.run(f"resnames_l {i} {nn} " + " ".join(hg.hexs(s) for s in l), f"mol[{i}].resnames={l}", fn)
    elif op == "resnames_s":
        s = rand_name(rng, long_ok=True)

        def fn():
            if kind == "mol":
                o.resnames = s
            else:
                o.resname = s
        st, _ = w.run(f"resnames_s {i} {hg.hexs(s)}", f"{kind}[{i}].resname(s)={s!r}", fn)
    elif op.startswith("set:"):
        attr = op[4:]
        rec["attr"] = attr
        if attr == "pos":
            v = hg.vec(rng, stream)
            toks, fn = f"pos {tok_v3(v)}", (lambda: setattr(o, "position", w.ro(v)))
        elif attr == "vel":
            if rng.random() < 0.25:
                v = None
                toks, fn = "vel 0", (lambda: setattr(o, "velocity", None))
            else:
                v = hg.velc(rng, stream)
                toks, fn = f"vel 1 {tok_v3(v)}", (lambda: setattr(o, "velocity", w.ro(v)))
        elif attr == "atomid":
            v = rng.randint(0, 99999)
            toks, fn = f"atomid {v}", (lambda: setattr(o, "atomid", v))
        elif attr == "gro_resid":
            v = rng.randint(0, 9999)
            toks = f"gro_resid {v}"
            fn = (lambda: setattr(o, "gro_resid", v)) if kind == "atom" else (lambda: setattr(o, "resid", v))
        elif attr == "top_resid":
            v = rng.randint(0, 9999)
            toks, fn = f"top_resid {v}", (lambda: setattr(o, "top_resid", v))
        elif attr == "resname":
            v = rand_name(rng)
            toks, fn = f"resname {hg.hexs(v)}", (lambda: setattr(o, "resname", v))
        else:
            v = rand_name(rng)
            toks, fn = f"name {hg.hexs(v)}", (lambda: setattr(o, "name", v))
        rec["value"] = v
        st, _ = w.run(f"setattr {i} {toks}", f"{kind}[{i}].{attr}={v!r}", fn)
    else:  # pragma: no cover
        raise ValueError(op)
    rec["status"] = st
    return rec


# ----------------------------------------------------------------------------- oracle

def positions_of(ob):
    return np.array([g[4] for g in hg.gro_part(ob)], dtype=float).reshape(-1, 3)


def pdist(P):
    d = P[:, None, :] - P[None, :, :]
    return np.sqrt((d * d).sum(-1))


def oracle_step(ctx, case, w, rec, before, after, stepno):
    fails = []
    i = rec["i"]
    nb = len(before)
    # --- isolation
    for j in range(nb):
        mj = w.meta[j]
        a, b = before[j], after[j]
        gro_may = (not rec["alloc_only"]) and mj["g"] == rec["g"]
        tj = mj["t"] if mj["kind"] in ("mol", "atom") else None
        top_may = (not rec["alloc_only"]) and rec["t"] is not None and tj == rec["t"]
        if not gro_may and not hg.bits_equal(hg.gro_part(a), hg.gro_part(b)):
            fails.append(("isolation:gro:" + rec["op"], {"changed_object": j, "before": a, "after": b}))
            break
        if not top_may and not hg.bits_equal(hg.top_part(a), hg.top_part(b)):
            fails.append(("isolation:top:" + rec["op"], {"changed_object": j, "before": a, "after": b}))
            break
    ctx.oracle_ok(1)
    clash = w.memory_clash()
    if clash:
        fails.append(("isolation:shared-array:" + rec["op"], {"classes": clash}))
    ctx.oracle_ok(1)
    ok = rec["status"] == "ok"
    # --- a new copy equals its source (gro side), and is a different object
    if ok and rec["op"] in ("copy", "deepcopy"):
        src, new = after[i], after[-1]
        if not hg.bits_equal(hg.gro_part(src), hg.gro_part(new)) or \
                (hg.top_part(src) and not hg.bits_equal(hg.top_part(src), hg.top_part(new))):
            fails.append(("copy:differs:" + rec["op"], {"source": src, "copy": new}))
        ctx.oracle_ok(1)
    # --- views write through
    if ok and rec["op"].startswith("set:"):
        m = w.meta[i]
        par = m.get("parent")
        if par is not None and m.get("k") is not None:
            pob = after[par]
            k = m["k"]
            pg = hg.gro_part(pob)[k]
            attr, v = rec["attr"], rec["value"]
            idx = {"gro_resid": 0, "resname": 1, "name": 2, "atomid": 3, "pos": 4, "vel": 5}
            shown = True
            if attr in idx:
                want = tuple(float(c) for c in v) if attr in ("pos", "vel") and v is not None else v
                shown = hg.bits_equal(pg[idx[attr]], want)
            if attr in ("top_resid", "resname", "name") and pob[0] == "M":
                tp = pob[2][k][1]
                tidx = {"name": 0, "resname": 1, "top_resid": 2}[attr]
                shown = shown and tp[tidx] == v
            if not shown:
                fails.append(("view:not-written-through:" + attr, {"parent": par, "k": k, "value": v,
                                                                   "parent_after": pob}))
            ctx.oracle_ok(1)
            ctx.count("view-write-through-checked")
    # --- rigid operations
    if ok and rec["op"] in ("move", "moveto", "rotate"):
        P, Q = positions_of(before[i]), positions_of(after[i])
        if len(P):
            dP, dQ = pdist(P), pdist(Q)
            if np.abs(dP - dQ).max() > TOL * max(1.0, dP.max()):
                fails.append(("rigid:distances:" + rec["op"] + ":" + rec["kind"],
                              {"max_change": float(np.abs(dP - dQ).max())}))
            cP, cQ = P.mean(axis=0), Q.mean(axis=0)
            if rec["op"] == "move":
                want = cP + np.array(rec["d"])
            elif rec["op"] == "moveto":
                want = np.array(rec["p"])
            else:
                want = cP
            if np.abs(cQ - want).max() > TOL * max(1.0, np.abs(want).max()):
                fails.append(("rigid:centre:" + rec["op"] + ":" + rec["kind"],
                              {"centre": cQ, "expected": want}))
            ctx.oracle_ok(2)
            if rec["kind"] == "mol" and len(w.env[i].residues) > 1:
                ctx.count("rigid-multi-residue-molecule")
    for key, detail in fails:
        detail = dict(detail)
        detail["step"] = stepno
        detail["op"] = w.desc[-1]
        ctx.oracle_fail("c18:" + key, case, detail)
    return not fails


# ----------------------------------------------------------------------------- read-only observers

def observe_readonly(ctx, case, w, seed, stepno):
    """Between two recorded operations, READ something from a random live molecule / residue through the
    public getters (geometric_center, x/y/z, distance_to, distance_to_zero, atoms_positions, atoms, len, str,
    ==).  A read is not an operation of the model (its state cannot change), so it is not sent to the driver;
    what is checked here, on the implementation only: nothing observable changes, and a centre that is read
    IS the mean of the coordinates the object shows now.  Reads matter because they are where caches get
    filled (seed C18-2: a centre cached on read and not invalidated by assignment through an atom view)."""
    rng = random.Random(f"obs-{seed}")
    if rng.random() < 0.45:
        return
    cands = [j for j, m in enumerate(w.meta) if m["kind"] in ("mol", "res")]
    if not cands:
        return
    j = rng.choice(cands)
    o = w.env[j]
    what = rng.choice(["centre", "centre", "xyz", "dist", "dist0", "positions", "atoms", "len-str-eq"])
    before = w.snapshot()
    got = None
    try:
        import warnings
        with warnings.catch_warnings():
            warnings.simplefilter("ignore")
            if what == "centre":
                got = np.array(o.geometric_center, dtype=float)
            elif what == "xyz":
                got = np.array([o.x, o.y, o.z], dtype=float)
            elif what == "dist":
                k = rng.choice(cands)
                o.distance_to(w.env[k])
                o.distance_to(np.array([0.5, -1.0, 2.0]))
            elif what == "dist0":
                o.distance_to_zero
            elif what == "positions":
                o.atoms_positions
                o.atoms_velocities
                o.atoms_ids
            elif what == "atoms":
                list(o.atoms)
            else:
                len(o)
                str(o)
                o == o
    except Exception:   # noqa: BLE001  (objects put in an inconsistent state by earlier label ops raise on access)
        ctx.count("observe:raised")
        return
    ctx.count("observe:" + what)
    after = w.snapshot()
    if not all(hg.bits_equal(a, b) for a, b in zip(before, after)):
        ctx.oracle_fail("c18:isolation:read-changes-state:" + what, case, {"step": stepno, "object": j})
    if got is not None:
        P = positions_of(after[j])
        if len(P) and np.abs(P.mean(axis=0) - got).max() > TOL * max(1.0, np.abs(got).max()):
            ctx.oracle_fail("c18:rigid:centre:reported-centre-is-not-the-mean:" + w.meta[j]["kind"], case,
                            {"step": stepno, "object": j, "reported": got, "mean": P.mean(axis=0)})
    ctx.oracle_ok(2)


# ----------------------------------------------------------------------------- evaluate

def evaluate(ctx, case):
    w = setup_world(ctx, case)
    mode = case.get("labels", "deep")
    copies = 0
    mutations_after_copy = 0
    for stepno, seed in enumerate(case["steps"]):
        rng = random.Random(seed)
        observe_readonly(ctx, case, w, seed, stepno)
        before = w.snaps[-1]
        rec = do_step(ctx, w, rng, mode)
        after = w.snaps[-1]
        ctx.count(f"op:{rec['op']}:{rec['kind']}:{rec['status']}")
        if rec["status"] == "ok":
            if rec["op"] in ("copy", "deepcopy", "molwith"):
                copies += 1
            elif rec["op"] not in PRODUCERS and copies:
                mutations_after_copy += 1
        oracle_step(ctx, case, w, rec, before, after, stepno)
    if not w.inputs_intact():
        ctx.oracle_fail("c18:isolation:input-array-modified", case, {"ops": w.desc})
    for d, msg in w.unexpected:
        ctx.oracle_fail("c18:isolation:in-place-write-to-input", case, {"op": d, "message": msg})
    ctx.oracle_ok(1)
    ctx.count("stream:" + case["stream"])
    ctx.count("labels:" + mode)
    ctx.case({"setup": case["setup"], "steps": case["steps"], "stream": case["stream"], "labels": mode},
             nontrivial=copies >= 1 and mutations_after_copy >= 2,
             sample={"stream": case["stream"], "ops": w.desc[:12], "n_ops": len(w.desc)})
    tol = 0.0 if case["stream"] == "exact" else TOL

    def cb(status, toks, case, w=w, tol=tol):
        if status != "ok":
            ctx.disagree(case, "heapseq", "ok", status)
            return
        hg.compare_with_model(ctx, case, w, toks, tol, "C18 heap model")
    ctx.model.ask("heapseq", w.request(), cb, case)
    if len(ctx.model.queue) >= 25:          # keep the worlds (held by the callbacks) short-lived
        ctx.model.flush(ctx)
