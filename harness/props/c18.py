"""C18 — copies are isolated, views write through, rigid operations preserve shape.

Case: {"kind": "seq", "stream": "exact"|"float", "labels": "deep"|"any", "setup": seed,
       "steps": [seed, …], "grammar": 2}      (no "grammar" key: the first op grammar, kept so that
                                                 corpus cases and old replays mean what they meant)
      {"kind": "routes"}                       the routing table of `Atom.__setattr__`, name by name
Everything (species, files, which object an operation hits, its arguments) is derived from the
seeds, so a case replays exactly and shrinks by deleting steps.

Per case the real objects are driven in-process and the same history is sent as ONE `heapseq`
request to the Lean heap model; after every operation the outcome (ok / exception class) and the
observation of every live object are compared (bit-exactly in the exact stream: dyadic
coordinates, quarter-turn rotations; 1e-9 in the float stream).

Oracle (the property's clauses on the implementation, independent of the model):
  isolation     an operation on an object changes no coordinate / velocity / number / gro label of any
                object outside its provenance class (class = an object with its live residues and
                atom views; copy, deep_copy, System hand-outs and Alignment copies start a new
                class) and no topology label of an object with another topology (deep copies and
                independently loaded molecules); allocation-only operations change nothing at all;
                no coordinate array memory is shared between classes; arrays handed in stay intact
  write-through after an assignment through `mol[i]`, an iteration view or `res[i]` the parent shows it
  rigid         move / move_to / rotate keep all pairwise distances (whole molecule, across
                residues), centre moves by d / to p / not at all, to 1e-9
  add           the Residue returned by `res + res`, `res + atom`, `atom + res`, `0 + res` shares no AtomGro
                object and no array memory with its operands (it starts a new provenance class, so the
                isolation clause watches it for the rest of the history); `atom + atom` builds its Residue
                out of the operands themselves (the classes merge; counted, an observation)
  remove_atom   afterwards the residue holds the same objects in the same order minus one, the one removed
                is the argument itself or equal to it by (resname, name); nothing outside the class changes

Grammar 2 adds: named attribute assignment / reads on `Atom` views, AtomGro objects and Molecules
(`setattrn` / `getattrn`: every route of `Atom.__setattr__` / `__getattr__` that stays inside the cell model),
`==` between any two handles, `Atom(view.atom_top, x)` / `Atom(x, y)`, `res.remove_atom(x)` — on free residues
and on residue views of molecules, the owning molecule is observed afterwards and stays in the op grammar —,
`a + b`, `0 + a`.
"""
import itertools
import os
import random

import numpy as np

from .. import heapgen as hg
from .. import apiy
from ..heapgen import World, tok_v3, tok_gro

RULE = ("operation sequences (<= 40 quick / <= 200 thorough) over {copy (incl. Alignment start/end), deep_copy, "
        "System hand-outs, mol[i] / iteration views, residues, res[i], move, move_to, rotate, set positions / "
        "velocities / ids / resids / resnames, attribute assignment through views} on 1-3 generated species "
        "(1-8 atoms, 1-3 residues, with/without velocities); exact stream = dyadic coordinates + quarter turns "
        "(bit-exact), float stream = random doubles + rotation_matrix (1e-9). Non-trivial = a copy-type op "
        "succeeded and >= 2 mutating ops succeeded afterwards; distinct by hash of the case seeds.")

TOL = 1e-9

RULE += (" Grammar 2 (all generated cases): + named attribute set/get on views / AtomGro / Molecule (all routes of "
         "Atom.__setattr__/__getattr__), ==, Atom(top, gro), Residue.remove_atom (free residues and residue views "
         "of molecules; the ragged owner stays in the grammar), a + b, 0 + a; one 'routes' case per run compares "
         "the routing table name by name.")

RULE += (" Grammar 3 (additional cases; harness/apiy.py): + write_gro (registered / unknown extensions; bytes and "
         "re-read records against an independent rendering), update_from_molecule_top (own / same-length / any "
         "topology), setattr / getattr by name on Molecules (all routes of Molecule.__setattr__), mol.index(x), "
         "hash(view); one 'molroutes' case per run compares the routing table of Molecule and dir() name by name.")

PRODUCERS = ("copy", "deepcopy", "molwith", "getatom", "iteratom", "getres")


def generate(ctx):
    rng = ctx.rng
    nseq = ctx.n(400, 2200)
    maxlen = 40 if ctx.quick() else 200
    yield {"kind": "routes"}
    for _ in range(nseq):
        nops = rng.randint(4, maxlen) if rng.random() < 0.8 else rng.randint(1, 6)
        yield {"kind": "seq", "grammar": 2,
               "stream": "exact" if rng.random() < 0.6 else "float",
               "labels": "any" if rng.random() < 0.12 else "deep",
               "setup": rng.getrandbits(40),
               "steps": [rng.getrandbits(40) for _ in range(nops)]}
    # grammar 3 (work package WPI): generated AFTER the grammar-2 cases, so that those stay what they were
    yield {"kind": "molroutes"}
    for _ in range(ctx.n(130, 900)):
        nops = rng.randint(4, maxlen) if rng.random() < 0.8 else rng.randint(1, 6)
        yield {"kind": "seq", "grammar": 3,
               "stream": "exact" if rng.random() < 0.6 else "float",
               "labels": "any" if rng.random() < 0.15 else "deep",
               "setup": rng.getrandbits(40),
               "steps": [rng.getrandbits(40) for _ in range(nops)]}


# ----------------------------------------------------------------------------- setup

def setup_world(ctx, case):
    from gaddlemaps.components import Molecule, System
    rng = random.Random(case["setup"])
    stream = case["stream"]
    w = World(ctx, stream)
    d = os.path.join(ctx.scratch, "c18-%d-%d" % (case["setup"], ctx.evaluations))
    os.makedirs(d, exist_ok=True)
    w.dir = d
    nsp = rng.choice([1, 1, 2, 3])
    g3 = case.get("grammar", 1) >= 3
    if g3:
        nsp = rng.choice([1, 2, 2, 3])
    n0 = None
    for s in range(nsp):
        if g3 and s >= 1 and rng.random() < 0.65:
            # a twin species: as many atoms as the first one, other names (update_from_molecule_top then renames)
            sp = hg.gen_species(rng, hg.LETTERS[s], n0, n0)
        else:
            sp = hg.gen_species(rng, hg.LETTERS[s], 1, 8)
        n0 = n0 or len(sp["atoms"])
        fitp = os.path.join(d, f"s{s}.itp")
        hg.write_itp(fitp, sp)
        with_vel = rng.random() < 0.5
        nmol = rng.randint(1, 3)
        lines, per_mol = [], []
        nres = len(sp["sizes"])
        for m in range(nmol):
            ml = hg.molecule_lines(rng, sp, stream, 1 + m * nres, 1 + m * len(sp["atoms"]), with_vel,
                                   centre=hg.vec(rng, "exact"))
            lines += ml
            per_mol.append([hg.parse_back(l) for l in ml])
        fgro = os.path.join(d, f"s{s}.gro")
        hg.write_gro(fgro, lines)
        if nmol == 1 and rng.random() < 0.5:
            mol = Molecule.from_files(fgro, fitp)
            w.add_loaded(mol, f"from_files(species {s})")
            ctx.count("load:from_files")
        else:
            syst = System(fgro, fitp)
            w.keep.append(syst)
            w.add_loaded(syst.different_molecules[0], f"System(species {s}).different_molecules[0]",
                         sys={"system": syst, "mols": per_mol, "sizes": sp["sizes"]})
            ctx.count("load:system")
        ctx.count("species:atoms=%d" % len(sp["atoms"]))
        ctx.count("species:residues=%d" % nres)
    return w


# ----------------------------------------------------------------------------- one step

def top_owners(w, t):
    return sum(1 for m in w.meta if m["kind"] == "mol" and m["t"] == t)


def class_has_mol(w, g):
    return any(m["kind"] == "mol" and m["g"] == g for m in w.meta)


def label_ok(w, i, mode):
    """may a label (resname / name) operation be aimed at env[i]?  In 'deep' mode only where the
    property claims isolation: sole owner of its topology, or a free-standing residue / atom."""
    if mode == "any":
        return True
    m = w.meta[i]
    if m["kind"] in ("mol", "atom"):
        return m["t"] is not None and top_owners(w, m["t"]) == 1
    return not class_has_mol(w, m["g"])


def choose_op(w, rng, i, mode, grammar=1):
    m = w.meta[i]
    k = m["kind"]
    crowded = len(w.env) >= 28
    ops = []

    def add(name, wt):
        ops.append((name, wt))
    if k == "mol":
        add("copy", 1.0 if crowded else 6.0)
        add("deepcopy", 0.6 if crowded else 4.0)
        if m.get("sys"):
            add("molwith", 0.6 if crowded else 5.0)
        add("getatom", 0.4 if crowded else 3.0)
        add("iteratom", 0.3 if crowded else 2.0)
        add("getres", 0.4 if crowded else 3.0)
        for name, wt in (("move", 5), ("moveto", 4), ("rotate", 5), ("setpos", 4), ("setvel", 3),
                         ("setids", 3), ("resids_l", 3), ("resids_i", 2)):
            add(name, wt)
        if label_ok(w, i, mode):
            add("resnames_l", 2.5)
            add("resnames_s", 1.5)
    elif k == "res":
        add("copy", 0.5 if crowded else 3.0)
        add("getatom", 0.3 if crowded else 2.0)
        for name, wt in (("move", 4), ("moveto", 3), ("rotate", 4), ("setpos", 3), ("setvel", 2),
                         ("setids", 2), ("resids_i", 2)):
            add(name, wt)
        if label_ok(w, i, mode):
            add("resnames_s", 2.0)
    elif k in ("agro", "atom"):
        add("copy", 0.5 if crowded else 2.0)
        add("set:pos", 5)
        add("set:vel", 3)
        add("set:atomid", 3)
        add("set:gro_resid", 1.0)
        if k == "atom":
            add("set:top_resid", 1.5)
        if label_ok(w, i, mode):
            add("set:resname", 1.5)
            add("set:name", 1.5)
    if grammar >= 2:
        if k == "mol":
            for name, wt in (("setn", 0.4), ("getn", 0.4), ("eq", 1.2), ("add", 0.4), ("radd0", 0.2),
                             ("remove", 0.2)):
                add(name, wt)
        elif k == "res":
            for name, wt in (("remove", 3.0), ("add", 2.5), ("radd0", 0.8), ("eq", 1.2)):
                add(name, wt)
        elif k == "agro":
            for name, wt in (("setn", 3.0), ("getn", 3.0), ("eq", 1.0), ("add", 3.0), ("radd0", 0.2),
                             ("remove", 0.2), ("mkatom", 0.6)):
                add(name, wt)
        elif k == "atom":
            for name, wt in (("setn", 4.0), ("getn", 4.0), ("eq", 1.2), ("add", 0.4), ("radd0", 0.2),
                             ("remove", 0.2), ("mkatom", 1.5)):
                add(name, wt)
    if grammar >= 3:
        apiy.add_ops(add, k, crowded)
    tot = sum(wt for _, wt in ops)
    x = rng.uniform(0, tot)
    for name, wt in ops:
        x -= wt
        if x <= 0:
            return name
    return ops[-1][0]


def natoms(o):
    return len(hg.gro_atoms(o))


def rand_name(rng, long_ok=False):
    n = rng.randint(1, 7 if long_ok else 5)
    return "".join(rng.choice("XYZWQ") for _ in range(n))


# ----------------------------------------------------------------------------- grammar 2: values, names

X_READONLY = ("eq", "getn", "mkatom", "add", "radd0")      # nothing observable may change


def to_pyval(v):
    """a Python value as the model's PyVal"""
    if isinstance(v, (bool, np.bool_)):
        return ("bool", bool(v))
    if isinstance(v, (int, np.integer)):
        return ("int", int(v))
    if isinstance(v, str):
        return ("str", v)
    if v is None:
        return ("none",)
    if isinstance(v, np.ndarray) and v.shape == (3,):
        return ("vec", tuple(float(c) for c in v))
    if isinstance(v, (set, frozenset)) and all(isinstance(x, (int, np.integer)) for x in v):
        return ("nats", tuple(sorted(int(x) for x in v)))
    return ("opaque",)


def tok_pyval(pv):
    k = pv[0]
    if k == "int":
        return f"int {pv[1]}"
    if k == "str":
        return f"str {hg.hexs(pv[1])}"
    if k == "vec":
        return "vec " + tok_v3(pv[1])
    if k == "nats":
        return " ".join(["nats", str(len(pv[1]))] + [str(x) for x in pv[1]])
    if k == "bool":
        return f"bool {int(pv[1])}"
    return k


def wpick(rng, pool):
    tot = sum(wt for _, wt in pool)
    x = rng.uniform(0, tot)
    for name, wt in pool:
        x -= wt
        if x <= 0:
            return name
    return pool[-1][0]


def pick_set_attr(w, rng, i, mode):
    """(attribute name, python value) for `setattr(env[i], name, value)`: every route of `Atom.__setattr__`
    that stays inside the cell model; label / topology-data names only where the property claims isolation"""
    kind = w.meta[i]["kind"]
    lab = label_ok(w, i, mode)
    if kind == "atom":
        pool = [("resid", 2), ("top_resid", 2), ("gro_resid", 2), ("atom_gro", .5), ("atom_top", .5),
                ("__weakref__", .3), ("__class__", .3), ("__dict__", .3), ("__doc__", .5), ("__module__", .5),
                ("residname", 1), ("element", 1.5), ("position", 3), ("velocity", 2), ("atomid", 2), ("fresh", 1.5)]
        if lab:
            pool += [("resname", 1.5), ("name", 2.0), ("index", 1.5), ("bonds", 1.5)]
    elif kind == "agro":
        pool = [("resid", 2), ("atomid", 2), ("position", 3), ("velocity", 2), ("residname", 1), ("element", 1)]
        if lab:
            pool += [("resname", 1.5), ("name", 2.0)]
    else:
        pool = [("resname", 1), ("resid", 1), ("residname", 1), ("remove_atom", 1)]
    name = wpick(rng, pool)
    if name in ("resid", "top_resid", "gro_resid"):
        v = rng.randint(0, 9999)
    elif name == "atomid":
        v = rng.randint(0, 99999)
    elif name == "position":
        v = w.ro(hg.vec(rng, w.stream))
    elif name == "velocity":
        v = None if rng.random() < 0.25 else w.ro(hg.velc(rng, w.stream))
    elif name == "resname":
        v = rand_name(rng)
    elif name == "name":
        # one in five without any letter: `element` then raises IOError, also inside `hasattr`
        v = "".join(rng.choice("0123456789") for _ in range(rng.randint(1, 3))) if rng.random() < 0.2 \
            else rand_name(rng)
    elif name == "index":
        v = rng.randint(0, 30)
    elif name == "bonds":
        v = set(rng.sample(range(12), rng.randint(0, 3)))
    elif name == "fresh":
        name, v = "tag%d" % rng.randint(0, 9), rng.randint(0, 99)
    else:
        v = 5
    return name, v


def pick_get_attr(w, rng, i):
    kind = w.meta[i]["kind"]
    if kind == "atom":
        pool = ["resid", "top_resid", "gro_resid", "resname", "name", "index", "bonds", "position", "velocity",
                "atomid", "residname", "element", "element", "copy", "atom_gro", "__eq__", "gro_line", "connect",
                "missing%d" % rng.randint(0, 9)]
    elif kind == "agro":
        pool = ["resid", "resname", "name", "atomid", "position", "velocity", "residname", "element", "element",
                "gro_line", "copy", "missing%d" % rng.randint(0, 9)]
    else:
        pool = ["resname", "resid", "residname", "remove_atom"]
    return rng.choice(pool)


WT_ATTR = {"position": "pos", "velocity": "vel", "atomid": "atomid", "gro_resid": "gro_resid",
           "top_resid": "top_resid", "resname": "resname", "name": "name"}


def same_object_in(res, x):
    return any(a is x for a in res)


def do_step_x(ctx, w, rng, mode, op, i, rec):
    """the operations of grammar 2 (model: GMModel.HeapX)"""
    o = w.env[i]
    m = w.meta[i]
    kind = m["kind"]
    rec["alloc_only"] = op in X_READONLY
    n_env = len(w.env)

    def partner(pred=None, p_any=0.3):
        c = [j for j in range(n_env) if pred(j)] if pred else []
        if c and rng.random() >= p_any:
            return rng.choice(c)
        return rng.randrange(n_env)

    if op == "setn":
        name, v = pick_set_attr(w, rng, i, mode)
        pv = to_pyval(v)
        st, _ = w.run(f"setattrn {i} {hg.hexs(name)} {tok_pyval(pv)}", f"{kind}[{i}].{name}={v!r} (named)",
                      lambda: setattr(o, name, v))
        ctx.count(f"setn:{kind}:{name if not name.startswith('tag') else 'fresh'}:{st}")
        wt = None
        if kind == "atom":
            wt = WT_ATTR.get(name)
        elif kind == "agro":
            wt = "gro_resid" if name == "resid" else \
                (WT_ATTR.get(name) if name in ("position", "velocity", "atomid", "resname", "name") else None)
        if wt:      # the write-through clause applies: same bookkeeping as the typed `set:` operations
            rec["op"] = "set:" + wt
            rec["attr"] = wt
            rec["value"] = None if v is None else (tuple(float(c) for c in v) if isinstance(v, np.ndarray) else v)
    elif op == "getn":
        name = pick_get_attr(w, rng, i)
        st, ret = w.run(f"getattrn {i} {hg.hexs(name)}", f"getattr({kind}[{i}], {name!r})", lambda: (getattr(o, name),))
        if st == "ok":
            w.extra[-1] = to_pyval(ret[0])
        ctx.count(f"getn:{kind}:{name if not name.startswith('missing') else 'missing'}:{st}")
    elif op == "eq":
        j = partner(lambda j: w.meta[j]["kind"] == kind, 0.35)
        p = w.env[j]
        st, ret = w.run(f"eq {i} {j}", f"{kind}[{i}] == {w.meta[j]['kind']}[{j}]", lambda: (o == p,))
        if st == "ok":
            w.extra[-1] = to_pyval(ret[0])
            ctx.count(f"eq:{kind}:{w.meta[j]['kind']}:{ret[0]}")
            # `!=` is the negation of `==` for every pair of handles (`__ne__` of AtomGro / Residue / Molecule)
            try:
                with hg.warnings.catch_warnings():
                    hg.warnings.simplefilter("ignore")
                    ne = bool(o != p)
                ctx.oracle_ok(1)
                if ne == bool(ret[0]):
                    ctx.oracle_fail("c18:eq:ne-is-not-the-negation-of-eq", w.case, {"op": w.desc[-1]})
            except Exception:   # noqa: BLE001
                ctx.count("ne:raised")
    elif op == "mkatom":
        if kind == "atom" and rng.random() < 0.85:
            j = partner(lambda j: w.meta[j]["kind"] == "agro", 0.25)
            p = w.env[j]
            st, _ = w.run(f"mkatom {i} {j} 1", f"Atom(atom[{i}].atom_top, {w.meta[j]['kind']}[{j}])",
                          lambda: type(o)(o.atom_top, p),
                          {"g": w.meta[j]["g"], "t": m["t"], "parent": None, "k": None})
        else:
            from gaddlemaps.components import Atom
            j = partner(lambda j: w.meta[j]["kind"] == "agro", 0.5)
            p = w.env[j]
            st, _ = w.run(f"mkatom {i} {j} 0", f"Atom({kind}[{i}], {w.meta[j]['kind']}[{j}])", lambda: Atom(o, p))
        ctx.count(f"mkatom:{kind}:{w.meta[j]['kind']}:{st}")
    elif op == "remove":
        if kind == "res":
            x = rng.random()
            own = [j for j in range(n_env) if w.meta[j]["kind"] == "agro" and same_object_in(o, w.env[j])]
            labels = {(str(a.resname), str(a.name)) for a in o}
            twins = [j for j in range(n_env) if w.meta[j]["kind"] == "agro" and not same_object_in(o, w.env[j])
                     and (str(w.env[j].resname), str(w.env[j].name)) in labels]
            if x < 0.55 and own:
                j, how = rng.choice(own), "own"
            elif 0.55 <= x < 0.75 and twins:
                j, how = rng.choice(twins), "equal-not-identical"
            elif 0.75 <= x < 0.87 or not len(o):
                j, how = rng.randrange(n_env), "any"
            elif own and x >= 0.87:
                j, how = rng.choice(own), "own"
            else:
                # no handle on one of its atoms yet: take one (a later step can remove it)
                k = rng.randrange(len(o))
                st, _ = w.run(f"getatom {i} {k}", f"res[{i}] getatom {k}", lambda: o[k],
                              {"g": m["g"], "t": None, "parent": i, "k": k})
                rec["op"], rec["alloc_only"], rec["status"] = "getatom", True, st
                return rec
        else:
            j, how = rng.randrange(n_env), "not-a-residue"
        p = w.env[j]
        before = list(o) if kind == "res" else None
        st, _ = w.run(f"remove {i} {j}", f"{kind}[{i}].remove_atom({w.meta[j]['kind']}[{j}])",
                      lambda: o.remove_atom(p))
        ctx.count(f"remove:{how}:{st}")
        if st == "ok":
            after = list(o)
            ks = [k for k in range(len(before)) if len(after) == len(before) - 1 and
                  all(a is b for a, b in zip(before[:k] + before[k + 1:], after))]
            good = [k for k in ks if before[k] is p or (str(before[k].resname), str(before[k].name)) ==
                    (str(getattr(p, "resname", None)), str(getattr(p, "name", None)))]
            if not good:
                ctx.oracle_fail("c18:remove_atom:not-one-matching-atom-removed", w.case, {"op": w.desc[-1]})
            elif not any(before[k] is p for k in good):
                ctx.count("remove:removed-an-equal-atom-not-the-argument")
            ctx.oracle_ok(1)
            owners = [q for q, mq in enumerate(w.meta) if mq["kind"] == "mol" and any(r is o for r in w.env[q].residues)]
            for q in owners:
                ctx.count("remove:owner-molecule-now-ragged" if hg.observe(w.env[q])[0] == "MR"
                          else "remove:owner-molecule-not-ragged")
    elif op == "add":
        def related(j):
            mj = w.meta[j]
            return mj["kind"] in ("res", "agro") and w.find(mj["g"]) == w.find(m["g"])
        x = rng.random()
        if kind in ("res", "agro") and x < 0.3:
            # any Residue / AtomGro, also of another residue or molecule (other residname: ValueError)
            j = partner(lambda j: w.meta[j]["kind"] in ("res", "agro"), 0.0)
        else:
            j = partner(related if kind in ("res", "agro") else None, 0.3)
        p = w.env[j]
        kj = w.meta[j]["kind"]
        shares = kind == "agro" and kj == "agro"
        meta = {"g": w.union(m["g"], w.meta[j]["g"]) if shares else w.new_g(), "t": None, "parent": None, "k": None}
        st, ret = w.run(f"add {i} {j}", f"{kind}[{i}] + {kj}[{j}]", lambda: o + p, meta)
        ctx.count(f"add:{kind}+{kj}:{st}")
        if st == "ok":
            mine = hg.gro_atoms(ret)
            theirs = hg.gro_atoms(o) + hg.gro_atoms(p)
            shared = any(a is b for a in mine for b in theirs)
            if shares:
                ctx.count("add:agro+agro:result-holds-the-operands" if shared else "add:agro+agro:result-copied")
            elif shared:
                ctx.oracle_fail("c18:add:result-shares-atoms-with-operand:" + kind + "+" + kj, w.case, {"op": w.desc[-1]})
            ctx.oracle_ok(1)
            rec["copylike"] = not shares
    elif op == "radd0":
        st, ret = w.run(f"radd0 {i}", f"0 + {kind}[{i}]", lambda: 0 + o,
                        {"g": w.new_g(), "t": None, "parent": None, "k": None})
        ctx.count(f"radd0:{kind}:{st}")
        if st == "ok":
            if any(a is b for a in hg.gro_atoms(ret) for b in hg.gro_atoms(o)):
                ctx.oracle_fail("c18:add:result-shares-atoms-with-operand:0+" + kind, w.case, {"op": w.desc[-1]})
            ctx.oracle_ok(1)
            rec["copylike"] = True
    else:  # pragma: no cover
        raise ValueError(op)
    rec["status"] = st
    return rec


def do_step(ctx, w, rng, mode, grammar=1):
    """pick a live object and an operation; run it on the implementation; return a record for the
    oracle: dict(op, i, status, touched classes, details)"""
    from gaddlemaps import Alignment
    stream = w.stream
    i = rng.randrange(len(w.env))
    # favour molecules a little (most of the API surface)
    if w.meta[i]["kind"] != "mol" and rng.random() < 0.35:
        mols = [j for j, m in enumerate(w.meta) if m["kind"] == "mol"]
        i = rng.choice(mols)
    o = w.env[i]
    m = w.meta[i]
    kind = m["kind"]
    op = choose_op(w, rng, i, mode, grammar)
    if grammar >= 2 and rng.random() < 0.24:
        # aim at the grammar-2 operations: they need Residue / AtomGro / view handles, which a uniform choice
        # among the live objects rarely hits
        flow = rng.choice(["remove", "remove", "add", "attr", "attr", "eq", "ragged"])
        by = {}
        for j, mj in enumerate(w.meta):
            by.setdefault(mj["kind"], []).append(j)
        pick = None
        if flow == "remove":
            c = [j for j in by.get("res", []) if len(w.env[j])]
            pick = (rng.choice(c), "remove") if c else (rng.choice(by["mol"]), "getres")
        elif flow == "add":
            c = by.get("res", []) + by.get("agro", [])
            pick = (rng.choice(c), rng.choice(["add", "add", "add", "radd0"])) if c else (rng.choice(by["mol"]), "getres")
        elif flow == "attr":
            c = by.get("atom", []) + by.get("agro", [])
            pick = (rng.choice(c), rng.choice(["setn", "setn", "getn", "mkatom"])) if c else \
                (rng.choice(by["mol"]), "getatom")
        elif flow == "eq":
            pick = (rng.randrange(len(w.env)), "eq")
        else:
            c = [j for j in by.get("mol", []) if len(w.env[j]) != natoms(w.env[j])]
            if c:
                j = rng.choice(c)
                pick = (j, choose_op(w, rng, j, mode, grammar))
        if pick:
            i, op = pick
            o, m = w.env[i], w.meta[i]
            kind = m["kind"]
            ctx.count("flow:" + flow)
    if grammar >= 3 and rng.random() < 0.30:
        pick = apiy.aim(w, rng)
        if pick:
            i, op = pick
            o, m = w.env[i], w.meta[i]
            kind = m["kind"]
            ctx.count("flow3:" + op)
    rec = {"op": op, "i": i, "kind": kind, "g": m["g"],
           "t": m["t"] if kind in ("mol", "atom") else None, "alloc_only": op in PRODUCERS}
    n = natoms(o)
    if op in ("setn", "getn", "eq", "mkatom", "remove", "add", "radd0"):
        return do_step_x(ctx, w, rng, mode, op, i, rec)
    if op in apiy.Y_OPS:
        import sys
        return apiy.do_step_y(ctx, sys.modules[__name__], w, rng, mode, op, i, rec)
    if op == "molwith" and any(len(r) == 0 for r in o.residues):
        # `System.__getitem__/__iter__` compute the stride from `len(stored.resnames)`, which raises once
        # `remove_atom` emptied a residue of the stored molecule (IndexError; ValueError through `last()`):
        # that is System's bookkeeping (C11/C12), not `base.copy(residues)` which `molwith` models
        ctx.count("molwith:skipped:stored-molecule-has-an-empty-residue")
        op = rec["op"] = "copy"
    # after `remove_atom` on one of its residues a molecule has len(mol) != number of its atoms; aim at both
    nl = len(o) if kind == "mol" and grammar >= 2 and len(o) != n and rng.random() < 0.6 else n
    if op == "copy" and kind == "mol" and rng.random() < 0.25:
        # copy(new_residues): the optional argument, with residues that are still OWNED by a live object — the
        # molecule's own, or those of another molecule with the same topology.  The result must be as isolated
        # from their owner as any other copy (Molecule.__init__ copies the residues it is given; seed C18-3).
        donors = [j for j, mj in enumerate(w.meta) if mj["kind"] == "mol" and mj["t"] == m["t"]]
        j = i if rng.random() < 0.5 else rng.choice(donors)
        donor = w.env[j]
        try:
            sizes = [len(r) for r in donor.residues]
            flat = [hg._gro_obs(ag) for r in donor.residues for ag in r]
            toks = f"molwith {i} " + hg.residues_tokens(flat, sizes)
            # only donors / receivers whose coordinate side still agrees with the topology (earlier label
            # assignments through residue views can leave a molecule that raises on every access: which
            # exception class copy() raises there is not the subject of this property)
            for obj in (o, donor):
                ob = hg.observe(obj)
                if ob[0] != "M" or any((g[1], g[2]) != (t[1], t[0]) for g, t in ob[2]):
                    toks = None
        except Exception:   # noqa: BLE001  (donor in an inconsistent state)
            toks = None
        if toks is not None:
            st, _ = w.run(toks, f"mol[{i}].copy(mol[{j}].residues)", lambda: o.copy(donor.residues),
                          {"g": w.new_g(), "t": m["t"], "parent": None, "k": None})
            rec["variant"] = "copy-with-residues-of-" + ("self" if j == i else "other")
            ctx.count("copy:with-live-residues:" + st)
            rec["status"] = st
            rec["op"] = "molwith"
            return rec
    if op == "copy":
        variant = rng.choice(["copy", "copy", "align-start", "align-end"]) if kind == "mol" else "copy"

        def fn():
            if variant == "copy":
                return o.copy()
            al = Alignment(start=o) if variant == "align-start" else Alignment(end=o)
            w.keep.append(al)
            return al.start if variant == "align-start" else al.end
        meta = {"g": w.new_g(), "t": m["t"] if kind in ("mol", "atom") else None, "parent": None, "k": None}
        st, _ = w.run(f"copy {i}", f"{kind}[{i}].{variant}()", fn, meta)
        rec["variant"] = variant
    elif op == "deepcopy":
        st, _ = w.run(f"deepcopy {i}", f"mol[{i}].deep_copy()", lambda: o.deep_copy(),
                      {"g": w.new_g(), "t": w.new_t(), "parent": None, "k": None})
    elif op == "molwith":
        sysd = m["sys"]
        syst = sysd["system"]
        j = rng.randrange(len(sysd["mols"]))
        variant = rng.choice(["getitem", "iter", "slice", "neg"])

        def fn():
            # the species' molecules are the only ones in its file: system index = j
            if variant == "getitem":
                return syst[j]
            if variant == "iter":
                return next(itertools.islice(iter(syst), j, None))
            if variant == "slice":
                return syst[j:j + 1][0]
            return syst[-1] if j == len(sysd["mols"]) - 1 else syst[j]
        toks = f"molwith {i} " + hg.residues_tokens(sysd["mols"][j], sysd["sizes"])
        st, _ = w.run(toks, f"system[{j}] via {variant}", fn,
                      {"g": w.new_g(), "t": m["t"], "parent": None, "k": None})
    elif op in ("getatom", "iteratom"):
        k = rng.randrange(max(1, nl))
        if op == "getatom":
            # the index as a plain int or as a numpy integer (np.argmax, np.where(...)[0][j]): the same live view
            # (seed C18-7: non-`int` indices routed to the list of COPIED atoms)
            kk = np.int64(k) if (k + i) % 3 == 0 else k
            fn = lambda: o[kk]
        else:
            fn = lambda: next(itertools.islice(iter(o), k, None))
        st, _ = w.run(f"{op} {i} {k}", f"{kind}[{i}] {op} {k}", fn,
                      {"g": m["g"], "t": m["t"] if kind == "mol" else None, "parent": i, "k": k})
    elif op == "getres":
        r = rng.randrange(len(o.residues))
        st, _ = w.run(f"getres {i} {r}", f"mol[{i}].residues[{r}]", lambda: o.residues[r],
                      {"g": m["g"], "t": None, "parent": i, "k": None})
    elif op == "move":
        d = hg.vec(rng, stream)
        st, _ = w.run(f"move {i} {tok_v3(d)}", f"{kind}[{i}].move", lambda: o.move(w.ro(d)))
        rec["d"] = d
    elif op == "moveto":
        p = hg.vec(rng, stream)
        if stream == "float" and rng.random() < 0.3:
            # re-centring by a hair, far from the origin: first to a point ~100 nm away (second op below), then to
            # that point + 10^-3…10^-7.  "to the requested point" has no tolerance that grows with the
            # coordinates (seed C18-5: move_to skipped when np.allclose(centre, target), rtol 1e-5)
            far = [rng.choice([-1, 1]) * rng.uniform(40.0, 300.0) for _ in range(3)]
            st0, _ = w.run(f"moveto {i} {tok_v3(far)}", f"{kind}[{i}].move_to(far)", lambda: o.move_to(w.ro(far)))
            eps = 10 ** -rng.uniform(3.0, 7.0)
            p = [far[k] + rng.choice([-1, 0, 1]) * eps for k in range(3)]
            if p == far:
                p[0] += eps
            ctx.count("moveto:near-tie-far-from-origin")
        st, _ = w.run(f"moveto {i} {tok_v3(p)}", f"{kind}[{i}].move_to", lambda: o.move_to(w.ro(p)))
        rec["p"] = p
    elif op == "rotate":
        R = hg.rotation(rng, stream)
        st, _ = w.run(f"rotate {i} {tok_v3(R.flatten())}", f"{kind}[{i}].rotate", lambda: o.rotate(w.ro(R)))
        rec["R"] = R
    elif op == "setpos":
        nn = nl if rng.random() < 0.93 else max(0, nl + rng.choice([-1, 1]))
        P = [hg.vec(rng, stream) for _ in range(nn)]

        def fn():
            o.atoms_positions = w.ro(np.array(P, dtype=float).reshape(nn, 3))
        st, _ = w.run(f"setpos {i} {nn} " + " ".join(tok_v3(p) for p in P), f"{kind}[{i}].atoms_positions=", fn)
    elif op == "setvel":
        if rng.random() < 0.25:
            def fn():
                o.atoms_velocities = None
            st, _ = w.run(f"setvel {i} 0", f"{kind}[{i}].atoms_velocities=None", fn)
        else:
            nn = nl if rng.random() < 0.93 else max(0, nl + rng.choice([-1, 1]))
            V = [hg.velc(rng, stream) for _ in range(nn)]

            def fn():
                o.atoms_velocities = w.ro(np.array(V, dtype=float).reshape(nn, 3))
            st, _ = w.run(f"setvel {i} 1 {nn} " + " ".join(tok_v3(v) for v in V),
                          f"{kind}[{i}].atoms_velocities=", fn)
    elif op == "setids":
        nn = nl if rng.random() < 0.93 else max(0, nl + rng.choice([-1, 1]))
        ids = [rng.randint(0, 99999) for _ in range(nn)]

        def fn():
            o.atoms_ids = list(ids)
        st, _ = w.run(f"setids {i} {nn} " + " ".join(map(str, ids)), f"{kind}[{i}].atoms_ids=", fn)
    elif op == "resids_l":
        nr = len(o.residues)
        x = rng.random()
        nn = nr if x < 0.9 else (0 if x < 0.93 else nr + 1)
        l = [rng.randint(0, 9999) for _ in range(nn)]

        def fn():
            o.resids = list(l)
        st, _ = w.run(f"resids_l {i} {nn} " + " ".join(map(str, l)), f"mol[{i}].resids={l}", fn)
    elif op == "resids_i":
        v = rng.randint(0, 9999)

        def fn():
            if kind == "mol":
                o.resids = v
            else:
                o.resid = v
        st, _ = w.run(f"resids_i {i} {v}", f"{kind}[{i}].resid(s)={v}", fn)
    elif op == "resnames_l":
        nr = len(o.residues)
        x = rng.random()
        nn = nr if x < 0.9 else (0 if x < 0.93 else nr + 1)
        l = [rand_name(rng) for _ in range(nn)]

        def fn():
            o.resnames = list(l)
        st, _ = w.run(f"resnames_l {i} {nn} " + " ".join(hg.hexs(s) for s in l), f"mol[{i}].resnames={l}", fn)
    elif op == "resnames_s":
        s = rand_name(rng, long_ok=True)

        def fn():
            if kind == "mol":
                o.resnames = s
            else:
                o.resname = s
        st, _ = w.run(f"resnames_s {i} {hg.hexs(s)}", f"{kind}[{i}].resname(s)={s!r}", fn)
    elif op.startswith("set:"):
        attr = op[4:]
        rec["attr"] = attr
        if attr == "pos":
            v = hg.vec(rng, stream)
            toks, fn = f"pos {tok_v3(v)}", (lambda: setattr(o, "position", w.ro(v)))
        elif attr == "vel":
            if rng.random() < 0.25:
                v = None
                toks, fn = "vel 0", (lambda: setattr(o, "velocity", None))
            else:
                v = hg.velc(rng, stream)
                toks, fn = f"vel 1 {tok_v3(v)}", (lambda: setattr(o, "velocity", w.ro(v)))
        elif attr == "atomid":
            v = rng.randint(0, 99999)
            toks, fn = f"atomid {v}", (lambda: setattr(o, "atomid", v))
        elif attr == "gro_resid":
            v = rng.randint(0, 9999)
            toks = f"gro_resid {v}"
            fn = (lambda: setattr(o, "gro_resid", v)) if kind == "atom" else (lambda: setattr(o, "resid", v))
        elif attr == "top_resid":
            v = rng.randint(0, 9999)
            toks, fn = f"top_resid {v}", (lambda: setattr(o, "top_resid", v))
        elif attr == "resname":
            v = rand_name(rng)
            toks, fn = f"resname {hg.hexs(v)}", (lambda: setattr(o, "resname", v))
        else:
            v = rand_name(rng)
            toks, fn = f"name {hg.hexs(v)}", (lambda: setattr(o, "name", v))
        rec["value"] = v
        st, _ = w.run(f"setattr {i} {toks}", f"{kind}[{i}].{attr}={v!r}", fn)
    else:  # pragma: no cover
        raise ValueError(op)
    rec["status"] = st
    return rec


# ----------------------------------------------------------------------------- oracle

def positions_of(ob):
    return np.array([g[4] for g in hg.gro_part(ob)], dtype=float).reshape(-1, 3)


def pdist(P):
    d = P[:, None, :] - P[None, :, :]
    return np.sqrt((d * d).sum(-1))


def oracle_step(ctx, case, w, rec, before, after, stepno):
    fails = []
    i = rec["i"]
    nb = len(before)
    # --- isolation
    for j in range(nb):
        mj = w.meta[j]
        a, b = before[j], after[j]
        gro_may = (not rec["alloc_only"]) and w.find(mj["g"]) == w.find(rec["g"])
        tj = mj["t"] if mj["kind"] in ("mol", "atom") else None
        top_may = (not rec["alloc_only"]) and rec["t"] is not None and tj == rec["t"]
        if not gro_may and not hg.bits_equal(hg.gro_part(a), hg.gro_part(b)):
            fails.append(("isolation:gro:" + rec["op"], {"changed_object": j, "before": a, "after": b}))
            break
        if not top_may and not hg.bits_equal(hg.top_part(a), hg.top_part(b)):
            fails.append(("isolation:top:" + rec["op"], {"changed_object": j, "before": a, "after": b}))
            break
    ctx.oracle_ok(1)
    clash = w.memory_clash()
    if clash:
        fails.append(("isolation:shared-array:" + rec["op"], {"classes": clash}))
    ctx.oracle_ok(1)
    ok = rec["status"] == "ok"
    # --- a new copy equals its source (gro side), and is a different object
    if ok and rec["op"] in ("copy", "deepcopy"):
        src, new = after[i], after[-1]
        if not hg.bits_equal(hg.gro_part(src), hg.gro_part(new)) or \
                (hg.top_part(src) and not hg.bits_equal(hg.top_part(src), hg.top_part(new))):
            fails.append(("copy:differs:" + rec["op"], {"source": src, "copy": new}))
        ctx.oracle_ok(1)
    # --- views write through
    if ok and rec["op"].startswith("set:"):
        m = w.meta[i]
        par = m.get("parent")
        if par is not None and m.get("k") is not None:
            # after `remove_atom` on the parent the k-th place may hold another atom (or none)
            pats = hg.gro_atoms(w.env[par])
            if not (m["k"] < len(pats) and pats[m["k"]] is hg.gro_atoms(w.env[i])[0]):
                if getattr(w, "some_remove_succeeded", False):
                    ctx.count("view-detached-by-remove_atom")
                    par = None
                # otherwise nothing was ever removed: the view SHOULD be the parent's k-th atom; the write-through
                # check below decides (seed C18-7: an index of numpy integer type handed out a copy)
        if par is not None and m.get("k") is not None:
            pob = after[par]
            k = m["k"]
            pg = hg.gro_part(pob)[k]
            attr, v = rec["attr"], rec["value"]
            idx = {"gro_resid": 0, "resname": 1, "name": 2, "atomid": 3, "pos": 4, "vel": 5}
            shown = True
            if attr in idx:
                want = tuple(float(c) for c in v) if attr in ("pos", "vel") and v is not None else v
                shown = hg.bits_equal(pg[idx[attr]], want)
            if attr in ("top_resid", "resname", "name") and pob[0] == "M" and w.meta[i]["kind"] == "atom":
                tp = pob[2][k][1]
                tidx = {"name": 0, "resname": 1, "top_resid": 2}[attr]
                shown = shown and tp[tidx] == v
            if not shown:
                fails.append(("view:not-written-through:" + attr, {"parent": par, "k": k, "value": v,
                                                                   "parent_after": pob}))
            ctx.oracle_ok(1)
            ctx.count("view-write-through-checked")
    # --- rigid operations
    if ok and rec["op"] in ("move", "moveto", "rotate"):
        P, Q = positions_of(before[i]), positions_of(after[i])
        if len(P) and np.isfinite(P).all() and not np.isfinite(Q).all():
            # finite coordinates in, NaN / inf out: no distance is "preserved" (comparisons with NaN are silently
            # false, so this has to be said explicitly; seed C18-8: 0/0 for an atom sitting on the centre)
            fails.append(("rigid:non-finite:" + rec["op"] + ":" + rec["kind"], {"after": Q}))
        elif len(P):
            dP, dQ = pdist(P), pdist(Q)
            if np.abs(dP - dQ).max() > TOL * max(1.0, dP.max()):
                fails.append(("rigid:distances:" + rec["op"] + ":" + rec["kind"],
                              {"max_change": float(np.abs(dP - dQ).max())}))
            cP, cQ = P.mean(axis=0), Q.mean(axis=0)
            if rec["op"] == "move":
                want = cP + np.array(rec["d"])
            elif rec["op"] == "moveto":
                want = np.array(rec["p"])
            else:
                want = cP
            if np.abs(cQ - want).max() > TOL * max(1.0, np.abs(want).max()):
                fails.append(("rigid:centre:" + rec["op"] + ":" + rec["kind"],
                              {"centre": cQ, "expected": want}))
            ctx.oracle_ok(2)
            if rec["kind"] == "mol" and len(w.env[i].residues) > 1:
                ctx.count("rigid-multi-residue-molecule")
    for key, detail in fails:
        detail = dict(detail)
        detail["step"] = stepno
        detail["op"] = w.desc[-1]
        ctx.oracle_fail("c18:" + key, case, detail)
    return not fails


# ----------------------------------------------------------------------------- read-only observers

def observe_readonly(ctx, case, w, seed, stepno):
    """Between two recorded operations, READ something from a random live molecule / residue through the
    public getters (geometric_center, x/y/z, distance_to, distance_to_zero, atoms_positions, atoms, len, str,
    ==).  A read is not an operation of the model (its state cannot change), so it is not sent to the driver;
    what is checked here, on the implementation only: nothing observable changes, and a centre that is read
    IS the mean of the coordinates the object shows now.  Reads matter because they are where caches get
    filled (seed C18-2: a centre cached on read and not invalidated by assignment through an atom view)."""
    rng = random.Random(f"obs-{seed}")
    if rng.random() < 0.45:
        return
    cands = [j for j, m in enumerate(w.meta) if m["kind"] in ("mol", "res")]
    if not cands:
        return
    j = rng.choice(cands)
    o = w.env[j]
    what = rng.choice(["centre", "centre", "xyz", "dist", "dist0", "positions", "atoms", "len-str-eq"])
    before = w.snapshot()
    got = None
    try:
        import warnings
        with warnings.catch_warnings():
            warnings.simplefilter("ignore")
            if what == "centre":
                got = np.array(o.geometric_center, dtype=float)
            elif what == "xyz":
                got = np.array([o.x, o.y, o.z], dtype=float)
            elif what == "dist":
                k = rng.choice(cands)
                o.distance_to(w.env[k])
                o.distance_to(np.array([0.5, -1.0, 2.0]))
            elif what == "dist0":
                o.distance_to_zero
            elif what == "positions":
                o.atoms_positions
                o.atoms_velocities
                o.atoms_ids
            elif what == "atoms":
                list(o.atoms)
                if w.meta[j]["kind"] == "mol":
                    # the views an iteration hands out are KEPT (list(mol), sorted(mol, …)): the i-th one is a live view of
                    # the i-th atom, whatever the iterator did afterwards (seed C18-12: one Atom wrapper re-pointed at
                    # every step — every kept view ends up on the last atom)
                    kept = list(o)
                    gs = hg.gro_atoms(o)
                    if len(kept) == len(gs) and any(v.atom_gro is not g for v, g in zip(kept, gs)):
                        k = next(k for k, (v, g) in enumerate(zip(kept, gs)) if v.atom_gro is not g)
                        ctx.oracle_fail("c18:view:kept-iteration-view-is-not-of-its-atom", case,
                                        {"step": stepno, "object": j, "view": k, "atoms": len(gs)})
            else:
                len(o)
                str(o)
                o == o
    except Exception:   # noqa: BLE001  (objects put in an inconsistent state by earlier label ops raise on access)
        ctx.count("observe:raised")
        return
    ctx.count("observe:" + what)
    after = w.snapshot()
    if not all(hg.bits_equal(a, b) for a, b in zip(before, after)):
        ctx.oracle_fail("c18:isolation:read-changes-state:" + what, case, {"step": stepno, "object": j})
    if got is not None:
        P = positions_of(after[j])
        if len(P) and np.abs(P.mean(axis=0) - got).max() > TOL * max(1.0, np.abs(got).max()):
            ctx.oracle_fail("c18:rigid:centre:reported-centre-is-not-the-mean:" + w.meta[j]["kind"], case,
                            {"step": stepno, "object": j, "reported": got, "mean": P.mean(axis=0)})
    ctx.oracle_ok(2)


# ----------------------------------------------------------------------------- the routing table, name by name

SENT = 12345


def real_route(name):
    """what the REAL `Atom.__setattr__` does with `atom.<name> = 12345` on a scratch view: the exception class
    (or None) and the set of (object, key) whose value became 12345 — object in {'view', 'top', 'gro'}"""
    from gaddlemaps.components import AtomGro, AtomTop, Atom
    a = Atom(AtomTop("A1", "RA", 1, 0), AtomGro([1, "RA", "A1", 1, 0.0, 0.0, 0.0]))
    top, gro = a.atom_top, a.atom_gro
    exc = None
    try:
        setattr(a, name, SENT)
    except Exception as e:   # noqa: BLE001
        exc = hg.exc_name(e)
    landed = set()
    for where, obj in (("view", a), ("top", top), ("gro", gro)):
        d = object.__getattribute__(obj, "__dict__")
        for k, v in d.items():
            if isinstance(v, int) and not isinstance(v, bool) and v == SENT:
                landed.add((where, k))
    return exc, landed


def expected_from_tag(tag, name):
    """the same outcome, as the model's routing table predicts it"""
    head, _, field = tag.partition(":")
    if head in ("pairSlot", "ownDict", "fresh"):
        return None, {("view", name)}
    if head in ("residRaise", "ownReadOnly", "topReadOnly", "groElement"):
        return "AttributeError", set()
    if head == "ownTypeErr":
        return "TypeError", set()
    if head == "both":
        return None, {("top", field), ("gro", field)}
    if head == "ownProp":
        return None, {("top" if field == "top_resid" else "gro", "resid")}
    if head in ("top", "gro"):
        return None, {(head, field)}
    if head in ("topOther", "groOther"):
        return None, {(head[:3], name)}
    return "?", set()


def values_cb(ctx, case, tol):
    def values(k, cur, world, mst):
        if apiy.extra_y(ctx, case, k, cur, world, mst, tol, None):
            return
        # a successful `getattrn` / `eq` answers with the value it read
        if world.ops[k].split(" ", 1)[0] in ("getattrn", "eq") and mst == "ok":
            if cur.tok() != "V":
                raise ValueError("expected V")
            got = cur.pyval()
            want = world.extra[k]
            if world.status[k] == "ok" and not hg.obs_close(want, got, tol):
                ctx.disagree(case, f"C18 heap model: value of op {k} ({world.desc[k]})", want, got)
    return values


GET_NAMES = ["resid", "top_resid", "gro_resid", "resname", "name", "index", "bonds", "position", "velocity", "atomid",
             "residname", "element", "copy", "atom_gro", "atom_top", "__eq__", "__add__", "gro_line", "connect",
             "closest_atoms", "missing0", "foo", "Position", "x"]


def evaluate_routes(ctx, case):
    from gaddlemaps.components import AtomGro, AtomTop, Atom
    # --- (1) `__setattr__`, name by name: the real method on a scratch view vs the model's table
    a = Atom(AtomTop("A1", "RA", 1, 0), AtomGro([1, "RA", "A1", 1, 0.0, 0.0, 0.0]))
    names = set(object.__dir__(a)) | set(dir(a.atom_top)) | set(dir(a.atom_gro))
    names |= {"resid", "foo", "tag0", "missing1", "x", "Position", "velocities", "atom_id", "bond", "indexes",
              "top_resids", "gro_resids", "_atom", "residue", "resnames", "names"}
    names = sorted(n for n in names if all(32 < ord(c) < 127 for c in n))
    for name in names:
        exc, landed = real_route(name)
        ctx.count("route:%s:%s" % (exc or "ok", "+".join(sorted({w_ for w_, _ in landed})) or "-"))

        def cb(status, toks, case, name=name, exc=exc, landed=landed):
            tag = toks[0] if status == "ok" and toks else status
            want = expected_from_tag(tag, name)
            if want != (exc, landed):
                ctx.disagree(case, f"C18 routing table: atom.{name} = v  (model route {tag})",
                             (exc, sorted(landed)), (want[0], sorted(want[1])))
        ctx.model.ask("atomroute", hg.hexs(name), cb, case)
    # the element clause: `hasattr(self._atom_gro, 'element')` evaluates the property
    b = Atom(AtomTop("12", "RA", 1, 0), AtomGro([1, "RA", "12", 1, 0.0, 0.0, 0.0]))
    for obj, want in ((a, AttributeError), (b, OSError)):
        try:
            obj.element = 5
            got = None
        except Exception as e:   # noqa: BLE001
            got = type(e)
        if got is not want:
            ctx.disagree(case, "C18 routing table: atom.element = 5", want.__name__, getattr(got, "__name__", got))
    # --- (2) `__getattr__`, name by name, on a live view whose two atoms DIFFER in every shared field (so the
    #         order "AtomGro first, then AtomTop" is visible), through the heap model
    wcase = {"kind": "seq", "grammar": 2, "stream": "exact", "labels": "any", "setup": 20260928, "steps": []}
    w = setup_world(ctx, wcase)
    w.case = case
    o = w.env[0]
    st, view = w.run("getatom 0 0", "mol[0] getatom 0", lambda: o[0],
                     {"g": w.meta[0]["g"], "t": w.meta[0]["t"], "parent": 0, "k": 0})
    vi = len(w.env) - 1
    st, res = w.run("getres 0 0", "mol[0].residues[0]", lambda: o.residues[0],
                    {"g": w.meta[0]["g"], "t": None, "parent": 0, "k": None})
    ri = len(w.env) - 1
    st, ag = w.run(f"getatom {ri} 0", "res getatom 0", lambda: res[0],
                   {"g": w.meta[0]["g"], "t": None, "parent": ri, "k": 0})
    ai = len(w.env) - 1
    for nm, v in (("resid", 777), ("name", "GN"), ("resname", "GRN"), ("atomid", 4242)):
        w.run(f"setattrn {ai} {hg.hexs(nm)} {tok_pyval(to_pyval(v))}", f"agro.{nm}={v!r}",
              lambda nm=nm, v=v: setattr(ag, nm, v))
    for nm, v in (("top_resid", 555), ("index", 9), ("bonds", {2, 5})):
        w.run(f"setattrn {vi} {hg.hexs(nm)} {tok_pyval(to_pyval(v))}", f"view.{nm}={v!r}",
              lambda nm=nm, v=v: setattr(view, nm, v))
    for handle, hi, kind in ((view, vi, "atom"), (ag, ai, "agro")):
        for nm in GET_NAMES:
            st, ret = w.run(f"getattrn {hi} {hg.hexs(nm)}", f"getattr({kind}, {nm!r})",
                            lambda handle=handle, nm=nm: (getattr(handle, nm),))
            if st == "ok":
                w.extra[-1] = to_pyval(ret[0])
            ctx.count(f"route-get:{kind}:{st}")

    def cb2(status, toks, case, w=w):
        if status != "ok":
            ctx.disagree(case, "heapseq", "ok", status)
            return
        hg.compare_with_model(ctx, case, w, toks, 0.0, "C18 attribute reads", extra_cb=values_cb(ctx, case, 0.0))
    ctx.model.ask("heapseq", w.request(), cb2, case)
    ctx.case({"kind": "routes", "names": len(names)}, nontrivial=False,
             sample={"names": names[:8], "n": len(names)})


# ----------------------------------------------------------------------------- evaluate

def evaluate(ctx, case):
    if case.get("kind") == "routes":
        return evaluate_routes(ctx, case)
    if case.get("kind") == "molroutes":
        return apiy.evaluate_mol_routes(ctx, case)
    w = setup_world(ctx, case)
    w.case = case
    grammar = case.get("grammar", 1)
    mode = case.get("labels", "deep")
    copies = 0
    mutations_after_copy = 0
    for stepno, seed in enumerate(case["steps"]):
        rng = random.Random(seed)
        observe_readonly(ctx, case, w, seed, stepno)
        before = w.snaps[-1]
        rec = do_step(ctx, w, rng, mode, grammar)
        after = w.snaps[-1]
        ctx.count(f"op:{rec['op']}:{rec['kind']}:{rec['status']}")
        if rec["op"] == "remove" and rec["status"] == "ok":
            w.some_remove_succeeded = True
        if rec["kind"] == "mol" and after[rec["i"]][0] == "MR":
            ctx.count(f"ragged-molecule:{rec['op']}:{rec['status']}")
        if rec["status"] == "ok":
            if rec["op"] in ("copy", "deepcopy", "molwith") or rec.get("copylike"):
                copies += 1
            elif rec["op"] not in PRODUCERS and not rec["alloc_only"] and copies:
                mutations_after_copy += 1
        oracle_step(ctx, case, w, rec, before, after, stepno)
    if not w.inputs_intact():
        ctx.oracle_fail("c18:isolation:input-array-modified", case, {"ops": w.desc})
    for d, msg in w.unexpected:
        ctx.oracle_fail("c18:isolation:in-place-write-to-input", case, {"op": d, "message": msg})
    ctx.oracle_ok(1)
    ctx.count("stream:" + case["stream"])
    ctx.count("labels:" + mode)
    ctx.count("grammar:%d" % grammar)
    ctx.case({"setup": case["setup"], "steps": case["steps"], "stream": case["stream"], "labels": mode,
              "grammar": grammar},
             nontrivial=copies >= 1 and mutations_after_copy >= 2,
             sample={"stream": case["stream"], "ops": w.desc[:12], "n_ops": len(w.desc)})
    tol = 0.0 if case["stream"] == "exact" else TOL

    def cb(status, toks, case, w=w, tol=tol):
        if status != "ok":
            ctx.disagree(case, "heapseq", "ok", status)
            return
        hg.compare_with_model(ctx, case, w, toks, tol, "C18 heap model", extra_cb=values_cb(ctx, case, tol))
    ctx.model.ask("heapseqy" if grammar >= 3 else "heapseq", w.request(), cb, case)
    if len(ctx.model.queue) >= 25:          # keep the worlds (held by the callbacks) short-lived
        ctx.model.flush(ctx)
