"""C19 — periodic distance is the minimum-image distance (Residue.distance_to).

Case:
  {"kind": "pbc", "cls": "...", "self": [[x,y,z],...], "target": {"point": [x,y,z]} | {"residue": [[x,y,z],...]},
   "box": [[3],[3],[3]] | null, "shift_t": [n,n,n], "shift_s": [n,n,n]}

Oracle (on the real code, tolerance 1e-9 * max(1, value)):
  * orthorhombic box: value == brute-force minimum of |v - n∘L| over a 5x5x5 window of images that is
    guaranteed to contain the optimum, and value <= non-periodic distance;
  * every non-singular box: the value is the length of some periodic image of the separation (searched in a
    window of lattice vectors), symmetry (swap the roles), invariance under integer lattice shifts of
    either argument, inverse-flag equivalence (np.linalg.inv(box), inv=True);
  * inputs not modified.
Model: op `pbc_dist` for (box, inv=False), (inv(box), inv=True) and the swapped roles.
"""
import itertools
import math

import numpy as np
from ..common import quiet as _quiet

from ..common import fbits, unfbits, v3, vlist, close

RULE = ("self/target: residues of 1..6 atoms or bare points, centres inside the box or up to 40 box lengths away; "
        "boxes: orthorhombic edges 0.5..20 nm (plus round-number grid cases), triclinic GROMACS-style lower-triangular "
        "with skew <= 0.5 edge, none, singular; the separation is built from fractional coordinates whose distance to "
        "a half-integer is >= 2e-6/edge (20% of cases within 1e-3 of the half box); lattice shifts in [-3,3]^3 on each "
        "side. Non-trivial = a box is given and the separation is not the zero vector; distinct by hash of the inputs.")

TOL = 1e-9


def _residue(points, resid=1):
    from gaddlemaps.components import AtomGro, Residue
    atoms = [AtomGro((resid, "RES", f"A{i}", i + 1, float(p[0]), float(p[1]), float(p[2])))
             for i, p in enumerate(points)]
    return Residue(atoms)


def _cloud(rng, centre, n, spread):
    """n points whose mean is (up to rounding) `centre`"""
    pts = [[rng.uniform(-spread, spread) for _ in range(3)] for _ in range(n)]
    m = [sum(p[k] for p in pts) / n for k in range(3)]
    return [[p[k] - m[k] + centre[k] for k in range(3)] for p in pts]


def _frac(rng, edge_min):
    """a fractional coordinate: integer part + offset kept away from +-1/2"""
    gap = 2e-6 / edge_min
    k = rng.random()
    if k < 0.2:
        off = rng.choice([-1, 1]) * (0.5 - gap - 10 ** rng.uniform(-6, -3))
    elif k < 0.3:
        off = rng.choice([0.0, 0.25, -0.25, 0.125])
    else:
        off = rng.uniform(-0.5 + gap + 1e-7, 0.5 - gap - 1e-7)
    far = rng.random()
    if far < 0.5:
        n = 0
    elif far < 0.85:
        n = rng.randint(-3, 3)
    else:
        n = rng.randint(-40, 40)
    return n + off


def generate(ctx):
    rng = ctx.rng
    # round-number grid cases first (small, readable witnesses)
    n_grid = ctx.n(600, 4000)
    for _ in range(n_grid):
        L = [float(rng.randint(1, 8)) / rng.choice([1, 2]) for _ in range(3)]
        a = [rng.randint(0, 40) / 10.0 for _ in range(3)]
        b = [rng.randint(0, 40) / 10.0 for _ in range(3)]
        # keep every component at least 0.05 away from a half box (grid step 0.1 vs L multiple of 0.5)
        ok = True
        for k in range(3):
            s = (b[k] - a[k]) / L[k]
            if abs(abs(s - math.floor(s)) - 0.5) * L[k] < 0.04:
                ok = False
        if not ok:
            continue
        yield {"kind": "pbc", "cls": "ortho-grid", "self": [a], "target": {"point": b}, "int_box": rng.random() < 0.6,
               "box": [[L[0], 0.0, 0.0], [0.0, L[1], 0.0], [0.0, 0.0, L[2]]],
               "shift_t": [rng.randint(-3, 3) for _ in range(3)], "shift_s": [rng.randint(-3, 3) for _ in range(3)]}
    # exact ties: binary-friendly boxes (rectangular and triclinic) and separations whose fractional coordinates
    # are exactly half-integers along one or more box vectors, everything exactly representable.  Which of the
    # two tied images is taken is the code's business (round-half-even); the SYMMETRY clause holds there too
    # (rounding is an odd function — seed C19-6: floor(x + 0.5) is not); shift invariance is not demanded at a
    # tie (the theorem's `NoHalf` hypothesis).
    for _ in range(ctx.n(400, 6000)):
        e = [float(rng.choice([2, 4, 8])) for _ in range(3)]
        if rng.random() < 0.7:
            box = [[e[0], 0.0, 0.0], [rng.choice([-0.5, -0.25, 0.25, 0.5]) * e[0], e[1], 0.0],
                   [rng.choice([-0.5, 0.0, 0.25, 0.5]) * e[0], rng.choice([-0.5, 0.0, 0.25]) * e[1], e[2]]]
            cls = "triclinic-tie"
        else:
            box = [[e[0], 0.0, 0.0], [0.0, e[1], 0.0], [0.0, 0.0, e[2]]]
            cls = "ortho-tie"
        fr = [rng.choice([0.5, -0.5, 1.5, -1.5, 2.5, 0.25, -0.25, 0.0, 0.75, 1.0]) for _ in range(3)]
        if not any(abs(abs(f) % 1.0 - 0.5) < 1e-12 for f in fr):
            fr[rng.randrange(3)] = rng.choice([0.5, -0.5, 1.5])
        sep = [sum(fr[i] * box[i][j] for i in range(3)) for j in range(3)]
        c_self = [float(rng.randint(-8, 8)) * 0.25 for _ in range(3)]
        c_tgt = [c_self[j] + sep[j] for j in range(3)]
        target = {"point": c_tgt} if rng.random() < 0.5 else {"residue": [c_tgt]}
        yield {"kind": "pbc", "cls": cls, "self": [c_self], "target": target, "box": box, "tie": True,
               "shift_t": [0, 0, 0], "shift_s": [0, 0, 0]}
    n_main = ctx.n(12000, 100000)
    prevL = None
    prev_box = None
    for _ in range(n_main):
        reused = False
        k = rng.random()
        if k < 0.5:
            cls = "ortho"
            L = [rng.choice([rng.uniform(0.5, 20.0), 10 ** rng.uniform(math.log10(0.5), math.log10(20.0))])
                 for _ in range(3)]
            if prevL is not None and rng.random() < 0.25:
                L = list(prevL)          # same edge lengths as an earlier (possibly triclinic) box of this run
                reused = True
            prevL = L
            box = [[L[0], 0.0, 0.0], [0.0, L[1], 0.0], [0.0, 0.0, L[2]]]
        elif k < 0.9:
            cls = "triclinic"
            L = [rng.uniform(0.5, 20.0) for _ in range(3)]
            if prevL is not None and rng.random() < 0.35:
                # a different cell with the SAME diagonal as an earlier box of this run (the process is shared by
                # all cases: anything the library caches per box must not be keyed on the edge lengths alone)
                L = list(prevL)
                reused = True
            prevL = L
            # GROMACS convention: v1 = (a,0,0), v2 = (b_x, b, 0), v3 = (c_x, c_y, c), |skew| <= 0.5 edge
            box = [[L[0], 0.0, 0.0],
                   [rng.uniform(-0.5, 0.5) * L[0], L[1], 0.0],
                   [rng.uniform(-0.5, 0.5) * L[0], rng.uniform(-0.5, 0.5) * L[1], L[2]]]
            if rng.random() < 0.3:   # general (rotated) moderately skewed cell
                th = rng.uniform(0, 2 * math.pi)
                c, s = math.cos(th), math.sin(th)
                box = [[r[0] * c - r[1] * s, r[0] * s + r[1] * c, r[2]] for r in box]
                cls = "triclinic-rotated"
        elif k < 0.95:
            cls = "none"
            L = [1.0, 1.0, 1.0]
            box = None
        else:
            cls = "singular"
            L = [1.0, 1.0, 1.0]
            # exactly singular in a way every LU detects exactly: a zero row or a zero column
            # (numpy's LU misses e.g. duplicated rows in floating point and returns ~1e15 entries;
            #  singular boxes are outside the property, only the error mapping is compared here)
            rows = [[float(rng.randint(-3, 3)) or 1.0 for _ in range(3)] for _ in range(3)]
            z = rng.randrange(3)
            if rng.random() < 0.5:
                rows[z] = [0.0, 0.0, 0.0]
            else:
                for r in rows:
                    r[z] = 0.0
            box = rows
        emin = min(L)
        fr = [_frac(rng, emin) for _ in range(3)]
        if rng.random() < 0.03:
            fr = [0.0, 0.0, 0.0]
        B = box if (box is not None and cls != "singular") else [[1.0, 0, 0], [0, 1.0, 0], [0, 0, 1.0]]
        sep = [sum(fr[i] * B[i][j] for i in range(3)) for j in range(3)]
        scale = max(L)
        c_self = [rng.uniform(-1.0, 2.0) * scale for _ in range(3)]
        if rng.random() < 0.15:
            c_self = [c * 20 for c in c_self]
        c_tgt = [c_self[j] + sep[j] for j in range(3)]
        ns = rng.choice([1, 1, 2, 3, 6])
        self_pts = _cloud(rng, c_self, ns, 0.3) if ns > 1 else [c_self]
        if rng.random() < 0.5:
            target = {"point": c_tgt}
        else:
            nt = rng.choice([1, 2, 4, 5])
            target = {"residue": _cloud(rng, c_tgt, nt, 0.3) if nt > 1 else [c_tgt]}
        case = {"kind": "pbc", "cls": cls, "self": self_pts, "target": target, "box": box,
                "shift_t": [rng.randint(-3, 3) for _ in range(3)], "shift_s": [rng.randint(-3, 3) for _ in range(3)]}
        if reused and prev_box is not None and box is not None:
            case["prior_box"] = prev_box      # makes the history part of the (replayable) case
        if box is not None and cls != "singular":
            prev_box = box
        yield case


def _brute_min_image(v, L):
    """min over a 5^3 window of images centred on floor(v/L): contains the optimum for an orthorhombic box"""
    k0 = [math.floor(v[i] / L[i]) for i in range(3)]
    best = math.inf
    for dn in itertools.product(range(-2, 3), repeat=3):
        w = [v[i] - (k0[i] + dn[i]) * L[i] for i in range(3)]
        best = min(best, math.sqrt(w[0] * w[0] + w[1] * w[1] + w[2] * w[2]))
    return best


def _call(fn):
    try:
        with _quiet():
            return float(fn()), None
    except Exception as e:  # noqa: BLE001 - mapped to the class name
        return None, type(e).__name__


def evaluate(ctx, case):
    from gaddlemaps.components import Residue  # noqa: F401  (import check)
    cls = case.get("cls", "?")
    self_pts = [[float(c) for c in p] for p in case["self"]]
    tgt = case["target"]
    box = case["box"]
    B = None if box is None else np.array([[float(c) for c in r] for r in box])
    int_box = bool(box is not None and case.get("int_box") and all(float(c).is_integer() for r in box for c in r))
    res_self = _residue(self_pts)
    c_self = np.mean(np.array(self_pts), axis=0)
    if "point" in tgt:
        t_pts = None
        t_point = np.array([float(c) for c in tgt["point"]])
        target = t_point.copy()
        target.flags.writeable = False
        c_tgt = t_point
    else:
        t_pts = [[float(c) for c in p] for p in tgt["residue"]]
        target = _residue(t_pts, resid=2)
        c_tgt = np.mean(np.array(t_pts), axis=0)
    if int(abs(self_pts[0][0]) * 1e4 + abs(c_tgt[1]) * 1e2 + len(self_pts)) % 2 == 0:
        # history: the residues stood somewhere else, were asked for their centre and a distance there, and were then put
        # where the case wants them THROUGH THEIR ATOMS (the handles a Molecule or a view writes through) — the distance
        # is a function of where the atoms are now (seed C19-11: a centre memoised on the Residue, dropped only by the
        # Residue's own setter)
        ctx.count("history:queried-elsewhere-then-moved-through-the-atoms")
        shift = np.array([1.75, -0.5, 2.25])
        res_self = _residue([list(np.array(p) + shift) for p in self_pts])
        movers = [(res_self, self_pts)]
        if t_pts is not None:
            target = _residue([list(np.array(p) - shift) for p in t_pts], resid=2)
            movers.append((target, t_pts))
        _call(lambda: res_self.geometric_center)
        _call(lambda: res_self.distance_to(target))
        if t_pts is not None:
            _call(lambda: target.distance_to(res_self))
        for r, pts in movers:
            for a, pnt in zip(r, pts):
                a.position = np.array(pnt, dtype=float)
    v = c_tgt - c_self
    Bro = None
    if B is not None:
        Bro = B.copy()
        if int_box:
            # the box as an INTEGER array (np.diag([3, 4, 5]), a nested list of ints): box lengths are box lengths
            # whatever their dtype (seed C19-9: np.reciprocal on an integer array is integer division)
            Bro = np.array(B, dtype=np.int64)
            ctx.count("box:integer-dtype")
        Bro.flags.writeable = False
    nontrivial = B is not None and bool(np.any(v != 0.0))
    ctx.case(case, nontrivial=nontrivial)
    ctx.count("cls:" + cls)
    ctx.count("target:" + ("point" if t_pts is None else "residue"))
    ctx.count(f"self-atoms:{len(self_pts)}")

    if case.get("prior_box") is not None:
        # history: the library was used with another box (same edge lengths) just before
        ctx.count("history:prior-box-same-diagonal")
        _call(lambda: res_self.distance_to(target, box_vects=np.array(case["prior_box"], dtype=float)))
    d, err = _call(lambda: res_self.distance_to(target, box_vects=Bro))
    fails = []
    detail = {"value": d, "error": err}
    plain = float(np.linalg.norm(v))

    if cls == "singular":
        ctx.count("impl-error:" + str(err))
        if err != "LinAlgError":
            # not a clause of the property; the model comparison below reports a difference
            pass
    elif B is None:
        ctx.oracle_ok(1)
        if err is not None or not close(d, plain, TOL):
            fails.append("no-box-euclidean")
    else:
        if err is not None:
            fails.append("raises-" + err)
        else:
            Binv = np.linalg.inv(B)
            frac = v @ Binv
            far = float(np.max(np.abs(frac)))
            ctx.count("far:" + ("inside" if far < 0.5 else "1-4-boxes" if far < 4.5 else "beyond"))
            half_gap = float(np.min(np.abs(np.abs(frac - np.floor(frac)) - 0.5)))
            ctx.count("near-half-box" if half_gap < 1e-3 else "clear-of-half-box")
            tol = TOL * max(1.0, plain)
            if cls.startswith("ortho"):
                L = [B[0, 0], B[1, 1], B[2, 2]]
                ref = _brute_min_image(v, L)
                detail["min_image"] = ref
                detail["non_periodic"] = plain
                ctx.oracle_ok(2)
                if abs(d - ref) > tol:
                    fails.append("ortho-min-image")
                if d > plain + tol:
                    fails.append("exceeds-nonperiodic")
            # every non-singular box: the value is the length of SOME periodic image of the separation
            # (a 3^3 window of lattice vectors around the nearest-fractional image must contain it)
            n0 = np.floor(frac + 0.5)
            imgs = [float(np.linalg.norm(v - (n0 + np.array(n)) @ B))
                    for n in itertools.product(range(-1, 2), repeat=3)]
            ctx.oracle_ok(1)
            if min(abs(x - d) for x in imgs) > tol:
                fails.append("not-an-image-distance")
                detail["image_distances_min"] = min(imgs)
            if not cls.startswith("ortho"):
                # triclinic: record (not a clause) whether rounding found the true minimum image
                best = min(float(np.linalg.norm(v - (n0 + np.array(n)) @ B))
                           for n in itertools.product(range(-2, 3), repeat=3))
                ctx.count("triclinic:is-true-min" if abs(best - d) <= tol else "triclinic:not-true-min")
            # symmetry
            if t_pts is not None:
                d_sym, e_sym = _call(lambda: target.distance_to(res_self, box_vects=Bro))
            else:
                d_sym, e_sym = _call(lambda: _residue([list(t_point)], resid=3).distance_to(
                    np.array(c_self), box_vects=Bro))
            ctx.oracle_ok(1)
            if e_sym is not None or abs(d_sym - d) > tol:
                fails.append("symmetry")
                detail["swapped"] = d_sym if e_sym is None else e_sym
            # lattice shifts of either argument
            nt = np.array(case["shift_t"], dtype=float)
            ns = np.array(case["shift_s"], dtype=float)
            sh_t = nt @ B
            sh_s = ns @ B
            if t_pts is not None:
                tgt_shift = _residue([list(np.array(p) + sh_t) for p in t_pts], resid=2)
            else:
                tgt_shift = t_point + sh_t
            self_shift = _residue([list(np.array(p) + sh_s) for p in self_pts])
            d_t, e_t = _call(lambda: res_self.distance_to(tgt_shift, box_vects=Bro))
            d_s, e_s = _call(lambda: self_shift.distance_to(target, box_vects=Bro))
            d_ts, e_ts = _call(lambda: self_shift.distance_to(tgt_shift, box_vects=Bro))
            ctx.oracle_ok(3)
            # the shifted coordinates are rounded: allow the rounding of |shift| ~ 1e-16 * |coords|
            big = float(max(np.max(np.abs(sh_t)), np.max(np.abs(sh_s)), np.max(np.abs(c_self)), 1.0))
            tol_sh = tol + 64 * 2.3e-16 * big
            for nm, dd, ee in (("target", d_t, e_t), ("self", d_s, e_s), ("both", d_ts, e_ts)):
                if case.get("tie"):
                    break
                if ee is not None or abs(dd - d) > tol_sh:
                    fails.append("lattice-shift")
                    detail["shifted-" + nm] = dd if ee is None else ee
                    break
            # inverse flag
            Binv_ro = Binv.copy()
            Binv_ro.flags.writeable = False
            d_inv, e_inv = _call(lambda: res_self.distance_to(target, box_vects=Binv_ro, inv=True))
            ctx.oracle_ok(1)
            if e_inv is not None or abs(d_inv - d) > tol:
                fails.append("inverse-flag")
                detail["with-inverse-flag"] = d_inv if e_inv is None else e_inv
            # inputs untouched
            if not np.array_equal(Bro, B) or (t_pts is None and not np.array_equal(target, t_point)):
                fails.append("inputs-modified")

            def cb_inv(status, toks, case, d_inv=d_inv, e_inv=e_inv):
                if e_inv is not None:
                    if status != "err":
                        ctx.disagree(case, "distance_to(inv=True) raised", e_inv, toks[:1])
                    return
                if status != "ok" or not close(unfbits(toks[0]), d_inv, TOL):
                    ctx.disagree(case, "distance_to(inv(box), inv=True)", d_inv,
                                 unfbits(toks[0]) if status == "ok" else toks)
            ctx.model.ask("pbc_dist", _tokens(self_pts, t_pts, c_tgt if t_pts is None else None, Binv, True),
                          cb_inv, case)
    for f in fails:
        ctx.oracle_fail("distance_to:" + f, case, detail)

    def cb(status, toks, case, d=d, err=err):
        if err is not None:
            if status != "err" or toks[0] != err:
                ctx.disagree(case, "distance_to raised", err, [status] + toks[:1])
            return
        if status != "ok":
            ctx.disagree(case, "distance_to", d, [status] + toks[:1])
            return
        m = unfbits(toks[0])
        if not close(m, d, TOL):
            ctx.disagree(case, "distance_to", d, m)
    ctx.model.ask("pbc_dist", _tokens(self_pts, t_pts, c_tgt if t_pts is None else None, B, False), cb, case)


def _tokens(self_pts, t_pts, t_point, B, inv):
    t = vlist(self_pts)
    if t_pts is None:
        t += " 0 " + v3(t_point)
    else:
        t += " 1 " + vlist(t_pts)
    if B is None:
        t += " 0"
    else:
        t += " 1 " + " ".join(v3(r) for r in B) + (" 1" if inv else " 0")
    return t
