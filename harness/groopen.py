"""harness.groopen — how a coordinate file is opened, and the rest of the `GroFile` API (C13, work package WPI);
model: `GMModel/GroOpen.lean`, driver ops `gro_dispatch`, `gro_mode`, `gro_fileobj`, `gro_wsession`.

Cases (kind "open"):
  {"what": "dispatch", "register": [exts | None, …], "names": [[name, as_object], …]}
        open_coordinate_file(name | open file object) for names with registered / unregistered / odd extensions,
        after registering test parser classes (subclasses of CoordinatesParser, registered by the metaclass)
  {"what": "mode", "mode": str, "exists": bool}            GroFile(path, mode): the '+' modes, every other mode string
  {"what": "fileobj", "fmode": str, "skip": k, "ops": [...], "rops": [...]}
        GroFile(already open file object), k lines consumed before; then a reader script
  {"what": "wsession", "ops": [...]}                       writer session with the getters (natoms, position_format,
                                                           comment, name) and seek_atom in WRITE mode in between

Oracle clauses (on the real code): an unknown extension is refused with ValueError and no file is opened / created;
a registered extension yields an instance of the class registered LAST for it; a file object in any mode but 'r' is
refused; `name` is the file's name; a getter never changes what the session writes.
"""
from __future__ import annotations

import os
import warnings

from . import grogen as G
from .common import hexs

MODES = ["r", "w", "a", "x", "r+", "w+", "+r", "+w", "a+", "x+", "rw", "rr", "", "rt", "wt", "tr", "U", "rU", "z",
         "w++", "r+t", "wr+", "ww", "at", "xt", "tt", "+", "t", "ar", "xw+"]
NAME_TAILS = [".gro", ".GRO", ".Gro", ".gRO", ".gro.bak", ".pdb", ".", "", ".tar.gro", ".GRO.gro", ".gro.GRO", ".xyzt",
              ".g96", ".gro ", ".groo", ".gr"]
REG_EXTS = [None, [], ["xyzt"], ["gro"], ["GRO", "g96"], ["xyzt", "Gro"], ["pdb"]]

VALID = ("t\n    1\n    1RES     A1    1   0.100   0.200   0.300\n   1.00000   1.00000   1.00000\n").encode()


def generate(ctx):
    rng = ctx.rng
    # every mode string once, on an existing and on a missing path
    for m in MODES:
        for ex in (True, False):
            yield {"kind": "open", "what": "mode", "mode": m, "exists": ex}
    for i in range(ctx.n(40, 600)):
        m = "".join(rng.choice("rwax+tb") for _ in range(rng.randint(0, 3)))
        yield {"kind": "open", "what": "mode", "mode": m, "exists": rng.random() < 0.7}
    # dispatch: no registration / one / two test parsers
    for i in range(ctx.n(60, 800)):
        nreg = 0 if i % 3 == 0 else rng.randint(1, 2)
        reg = [rng.choice(REG_EXTS) for _ in range(nreg)]
        names = []
        for j in range(rng.randint(3, 9)):
            base = rng.choice(["a", "b", "sys", "gro", "GRO", "x.y"])
            tail = rng.choice(NAME_TAILS)
            sub = rng.choice(["", "", "d.gro", "d"])
            names.append([os.path.join(sub, base + tail) if sub else base + tail, rng.random() < 0.3])
        yield {"kind": "open", "what": "dispatch", "register": reg, "names": names}
    # an already open file object
    for i in range(ctx.n(80, 1200)):
        nrec = rng.randint(1, 6)
        ops = G.gen_valid_session(rng, nrec=nrec)
        fmode = rng.choice(["r", "r", "r", "r", "rt", "r+", "w", "a", "rb", "w+", "a+"])
        skip = rng.choice([0, 0, 0, 0, 1, 2, nrec + 2, nrec + 3]) if fmode == "r" else 0
        yield {"kind": "open", "what": "fileobj", "fmode": fmode, "skip": skip, "ops": ops,
               "rops": G.gen_reader_script(rng, nrec, nonneg=True)}
    # writer sessions with getters and seek_atom
    for i in range(ctx.n(150, 2500)):
        ops = G.gen_valid_session(rng, nrec=rng.randint(1, 8)) if rng.random() < 0.7 else G.gen_api_session(rng)
        nrec = sum(1 for o in ops if o[0] == "w")
        out = []
        for o in ops:
            while rng.random() < 0.35:
                k = rng.random()
                if k < 0.3:
                    out.append(["gn"])
                elif k < 0.5:
                    out.append(["gp"])
                elif k < 0.7:
                    out.append(["gc"])
                elif k < 0.8:
                    out.append(["nm"])
                else:
                    out.append(["k", rng.choice([0, 0, 1, nrec, nrec + 1, -1, rng.randint(0, 9)])])
            out.append(o)
        yield {"kind": "open", "what": "wsession", "ops": out}


# ----------------------------------------------------------------------------- evaluation

def _exc(e):
    n = type(e).__name__
    return "OSError" if isinstance(e, OSError) else n


def _eval_mode(ctx, case):
    from gaddlemaps.parsers import GroFile
    path = os.path.join(ctx.scratch, "c13-open-mode.gro")
    if os.path.exists(path):
        os.unlink(path)
    if case["exists"]:
        G.write_file(path, VALID)
    mode = case["mode"]
    g = None
    with warnings.catch_warnings(record=True) as ws:
        warnings.simplefilter("always")
        try:
            g = GroFile(path, mode)
            impl = ("O", G.gfile(g).mode, any(issubclass(w.category, RuntimeWarning) for w in ws),
                    G.priv(g, "_natoms") not in (None, G.MISSING), "w" in G.gfile(g).mode)
        except Exception as e:   # noqa: BLE001
            impl = ("E", _exc(e))
    after = G.read_bytes(path) if os.path.exists(path) else None
    if g is not None:
        G.gfile(g).close()
    ctx.count("open-mode:" + (impl[1] if impl[0] == "E" else "opened-" + impl[1] + ("-warned" if impl[2] else "")))
    ctx.case(case, nontrivial=True, sample=case)
    # oracle: a mode that ends up reading leaves the file alone
    ctx.oracle_ok(1)
    if impl[0] == "O" and impl[3] and case["exists"] and after != VALID:
        ctx.oracle_fail("open:read-mode-changed-the-file", case, {"mode": mode})
    if "+" in mode and impl[0] == "O" and not impl[2]:
        ctx.oracle_fail("open:plus-mode-without-warning", case, {"mode": mode})

    def cb(status, toks, case, impl=impl):
        if toks[0] == "E":
            m = ("E", toks[1])
        else:
            m = ("O", "" if toks[1] == "-" else bytes.fromhex(toks[1]).decode(), bool(int(toks[2])), bool(int(toks[3])),
                 bool(int(toks[4])))
        if m == ("E", "unmodelled"):
            ctx.count("open-mode:skipped-binary")
            return
        if m != impl:
            ctx.disagree(case, f"GroFile(path, {case['mode']!r})", impl, m)
    ctx.model.ask("gro_mode", f"{hexs(mode)} {int(case['exists'])}", cb, case)


def _make_parser(exts, log):
    from gaddlemaps.parsers import CoordinatesParser

    class TestParser(CoordinatesParser):
        EXTENSIONS = None if exts is None else tuple(exts)

        def __init__(self, path, mode="r"):
            super().__init__(path, mode)
            self.path, self.mode, self.lines = path, mode, []

        def seek_atom(self, index):
            return super().seek_atom(index)

        def next(self):
            if self.lines:
                raise StopIteration
            self.lines.append("served")
            return super().next()

        def writeline(self, atomlist):
            log.append(("writeline", atomlist))
            return super().writeline(atomlist)

        def close(self):
            log.append(("close",))
            return super().close()

        @property
        def natoms(self):
            return CoordinatesParser.natoms.fget(self)

        @property
        def box_matrix(self):
            return CoordinatesParser.box_matrix.fget(self)

        @box_matrix.setter
        def box_matrix(self, v):
            return CoordinatesParser.box_matrix.fset(self, v)

        @property
        def comment(self):
            return CoordinatesParser.comment.fget(self)

        @comment.setter
        def comment(self, v):
            return CoordinatesParser.comment.fset(self, v)
    return TestParser


def _eval_dispatch(ctx, case):
    import numpy as np
    from gaddlemaps import parsers as P
    saved = dict(P.ParserManager.parsers)
    d = os.path.join(ctx.scratch, "c13-open-%d" % (ctx.evaluations % 4))
    import shutil
    shutil.rmtree(d, ignore_errors=True)
    os.makedirs(os.path.join(d, "d.gro"))
    os.makedirs(os.path.join(d, "d"))
    log = []
    classes = {P.GroFile: 1}
    impl = []
    try:
        for k, exts in enumerate(case["register"]):
            classes[_make_parser(exts, log)] = k + 2
            ctx.count("register:" + ("None" if exts is None else "+".join(exts) or "()"))
        for name, as_obj in case["names"]:
            path = os.path.join(d, name)
            G.write_file(path, VALID)
            before = set(os.listdir(os.path.dirname(path)))
            arg, fobj = path, None
            if as_obj:
                fobj = open(path, "r")
                arg = fobj
            try:
                with warnings.catch_warnings():
                    warnings.simplefilter("ignore")
                    p = P.open_coordinate_file(arg)
                res = ("P", classes.get(type(p), -1))
                if isinstance(p, P.GroFile):
                    ctx.oracle_ok(1)
                    if p.name != path:
                        ctx.oracle_fail("open:name-is-not-the-file-name", case, {"name": p.name, "path": path})
                    G.gfile(p).close()
                else:
                    # the defaults of the abstract base class, reached through super()
                    with p:
                        p.writelines([(1, "R", "A", 1, 0.0, 0.0, 0.0), (1, "R", "B", 2, 0.0, 0.0, 0.0)])
                    got = (p.natoms, np.array(p.box_matrix).tolist(), p.comment, p.seek_atom(0), list(iter(p)))
                    want = (0, [[1, 0, 0], [0, 1, 0], [0, 0, 1]], "Generic system", None, [(1, "mol", "C", 1, 0, 0, 0)])
                    p.box_matrix = np.eye(3)
                    p.comment = "x"
                    if got != want or [x[0] for x in log[-3:]] != ["writeline", "writeline", "close"]:
                        ctx.disagree(case, "CoordinatesParser defaults / writelines / context manager", [got, log[-3:]], want)
                    ctx.count("base-class-defaults-checked")
            except Exception as e:   # noqa: BLE001
                res = ("E", _exc(e))
            finally:
                if fobj is not None:
                    fobj.close()
            impl.append(res)
            ext = os.path.basename(name).split(".")[-1]
            ctx.count("dispatch:" + (res[1] if res[0] == "E" else "parser-%d" % res[1]) + ":" +
                      ("registered" if ext in P.ParserManager.parsers else "unknown-extension"))
            ctx.oracle_ok(1)
            if ext not in P.ParserManager.parsers:
                if res != ("E", "ValueError"):
                    ctx.oracle_fail("open:unknown-extension-not-refused", case, {"name": name, "got": res})
                if set(os.listdir(os.path.dirname(path))) != before:
                    ctx.oracle_fail("open:file-created-for-a-refused-name", case, {"name": name})
            elif res[0] == "P" and type(None) is not None:
                want = classes.get(P.ParserManager.parsers[ext], -1)
                if res[1] != want:
                    ctx.oracle_fail("open:not-the-class-registered-for-the-extension", case, {"name": name, "got": res})
    finally:
        P.ParserManager.parsers.clear()
        P.ParserManager.parsers.update(saved)
        shutil.rmtree(d, ignore_errors=True)
    ctx.case(case, nontrivial=True, sample=case)
    regs = " ".join(f"{k + 2} " + ("N" if e is None else " ".join(["L", str(len(e))] + [hexs(x) for x in e]))
                    for k, e in enumerate(case["register"]))
    names = " ".join(hexs(os.path.join(d, n)) for n, _ in case["names"])
    toks = f"{len(case['register'])} {regs} {len(case['names'])} {names}".replace("  ", " ")

    def cb(status, toks, case, impl=impl):
        m = [(toks[i], toks[i + 1] if toks[i] == "E" else int(toks[i + 1])) for i in range(0, len(toks), 2)]
        if m != impl:
            bad = next(i for i, (a, b) in enumerate(zip(m + [None], impl + [None])) if a != b)
            ctx.disagree(case, f"open_coordinate_file({case['names'][bad][0]!r})", impl[bad], m[bad])
    ctx.model.ask("gro_dispatch", toks, cb, case)


def _eval_fileobj(ctx, case):
    path = os.path.join(ctx.scratch, "c13-open-obj.gro")
    if os.path.exists(path):
        os.unlink(path)
    errs, data, _ = G.run_session(path, case["ops"])
    fmode, skip = case["fmode"], case["skip"]
    with warnings.catch_warnings():
        warnings.simplefilter("ignore")
        f = open(path, fmode)
    pos = 0
    if "r" in fmode and "b" not in fmode:
        for _ in range(skip):
            f.readline()
        pos = f.tell()
    impl = G.run_reader(f, case["rops"])
    try:
        f.close()
    except Exception:   # noqa: BLE001
        pass
    opened = "open_err" not in impl
    ctx.count(f"fileobj:{fmode}:skip={min(skip, 3)}:" + ("opened" if opened else impl["open_err"]))
    ctx.case(case, nontrivial=opened, sample={"fmode": fmode, "skip": skip})
    ctx.oracle_ok(1)
    if fmode != "r" and opened:
        ctx.oracle_fail("open:file-object-not-in-read-mode-accepted", case, {"fmode": fmode})
    if fmode in ("w", "w+"):
        data = b""            # open() truncated it; the constructor must refuse before reading anyway
    if not G.modelled_text(data):
        ctx.count("skipped-non-ascii-file")
        return

    def cb(status, toks, case, impl=impl):
        m = G.parse_rsession_response(status, toks)
        if m.get("open_err") == "unmodelled":
            ctx.count("skipped-unmodelled")
            return
        if ("open_err" in impl) or ("open_err" in m):
            if impl.get("open_err") != m.get("open_err"):
                ctx.disagree(case, "GroFile(file object): open error", impl.get("open_err"), m.get("open_err"))
            return
        hdr = G.compare_read({k: impl[k] for k in ("title", "natoms", "init", "size", "fmt", "vel", "box")},
                             {k: m[k] for k in ("title", "natoms", "init", "size", "fmt", "vel", "box")})
        if hdr:
            ctx.disagree(case, "GroFile(file object) header: " + hdr, impl, m)
            return
        for i, ((ri, pi, ci), (rm, pm, cm)) in enumerate(zip(impl["results"], m["results"])):
            if rm[0] == "E" and rm[1] == "unmodelled":
                ctx.count("skipped-unmodelled")
                return
            if ri[0] != rm[0]:
                same = False
            elif ri[0] == "P":
                same = G.same_rec(ri[1], rm[1])
            elif ri[0] == "L":
                same = G.text_bytes(ri[1]).decode("latin-1") == rm[1]
            else:
                same = ri == rm
            if not same or pi != pm or (ci != cm and ci is not G.MISSING):
                ctx.disagree(case, f"GroFile(file object) op #{i} {case['rops'][i]!r}", [ri, pi, ci], [rm, pm, cm])
                return
    ctx.model.ask("gro_fileobj", f"{hexs(fmode)} {pos} {hexs(data)} {G.rops_tokens(case['rops'])}", cb, case)


def _eval_wsession(ctx, case):
    from gaddlemaps.parsers import GroFile
    path = os.path.join(ctx.scratch, "c13-open-w.gro")
    if os.path.exists(path):
        os.unlink(path)
    ops = G.resolve_ops(case["ops"])
    impl = []
    with warnings.catch_warnings():
        warnings.simplefilter("ignore")
        g = GroFile(path, "w")
        for op in ops:
            try:
                k = op[0]
                if k == "gn":
                    r = ("I", int(g.natoms))
                elif k == "gp":
                    r = ("F",) + tuple(int(x) for x in g.position_format)
                elif k == "gc":
                    r = ("S", g.comment)
                elif k == "nm":
                    r = ("S", g.name)
                elif k == "k":
                    g.seek_atom(int(op[1]))
                    r = ("U",)
                else:
                    G.apply_op(g, op)
                    r = ("U",)
            except Exception as e:   # noqa: BLE001
                r = ("E", _exc(e))
            impl.append(r)
            ctx.count("wsession:" + op[0] + ":" + (r[1] if r[0] == "E" else "ok") if op[0] in ("gn", "gp", "gc", "k", "nm") else "wsession:base")
        try:
            G.gfile(g).close()
        except Exception:   # noqa: BLE001
            pass
    data = G.read_bytes(path)
    ctx.case(case, nontrivial=True, sample={"nops": len(ops)})
    # oracle: `name` is the path; the getters change nothing — the same session without them writes the same file
    ctx.oracle_ok(2)
    for op, r in zip(ops, impl):
        if op[0] == "nm" and r != ("S", path):
            ctx.oracle_fail("open:name-is-not-the-file-name", case, {"got": r})
    plain = [o for o in ops if o[0] not in ("gn", "gp", "gc", "nm")]
    if len(plain) != len(ops):
        path2 = path + ".plain.gro"
        _e, data2, _ = G.run_session(path2, plain) if not any(o[0] == "k" for o in plain) else (None, None, None)
        if data2 is not None and data2 != data:
            ctx.oracle_fail("open:a-getter-changed-what-the-session-writes", case, {"with": data[:300], "without": data2[:300]})
        if os.path.exists(path2):
            os.unlink(path2)
    mops = [o for o in ops if o[0] != "nm"]
    mimpl = [r for o, r in zip(ops, impl) if o[0] != "nm"]
    if not all(G.modelled_text(G.text_bytes(o[1])) for o in mops if o[0] in ("c", "s")):
        ctx.count("skipped-non-ascii-file")
        return
    toks = " ".join([str(len(mops))] + [o[0] if o[0] in ("gn", "gp", "gc") else (f"k {int(o[1])}" if o[0] == "k" else G.op_tokens(o))
                                        for o in mops])

    def cb(status, toks, case, mimpl=mimpl, data=data):
        t = G.Toks(toks)
        n = t.int()
        m = []
        for _ in range(n):
            k = t.next()
            if k == "E":
                m.append(("E", t.next()))
            elif k == "U":
                m.append(("U",))
            elif k == "I":
                m.append(("I", t.int()))
            elif k == "F":
                m.append(("F", t.int(), t.int()))
            else:
                m.append(("S", t.bytes()))
        if any(r == ("E", "unmodelled") for r in m):
            ctx.count("skipped-unmodelled")
            return
        want = [("S", G.text_bytes(r[1]).decode("latin-1")) if r[0] == "S" else r for r in mimpl]
        if m != want:
            bad = next(i for i, (a, b) in enumerate(zip(m + [None], want + [None])) if a != b)
            ctx.disagree(case, f"writer session with getters: op #{bad}", want[bad] if bad < len(want) else None,
                         m[bad] if bad < len(m) else None)
            return
        mb = t.bytes()
        if mb != data.decode("latin-1"):
            ctx.disagree(case, "writer session with getters: file bytes", data[:400], mb[:400])
    ctx.model.ask("gro_wsession", toks, cb, case)


def evaluate(ctx, case):
    return {"mode": _eval_mode, "dispatch": _eval_dispatch, "fileobj": _eval_fileobj,
            "wsession": _eval_wsession}[case["what"]](ctx, case)
