"""harness.apiy — the rest of the public API of the component classes (C18, work package WPI), grammar 3 of
`harness/props/c18.py`; model: `GMModel/HeapY.lean`, driver op `heapseqy` (`Driver/HeapY.lean`).

    write_gro(fname)                          Residue / Molecule
    update_from_molecule_top(mol.molecule_top) Residue / Molecule
    setattr / getattr by name on a Molecule   every route of `Molecule.__setattr__` that stays inside the cell model
    mol.index(x)                              x an `Atom` view (own, of a copy), an AtomGro, a Residue, a Molecule
    hash(view)

Oracle clauses evaluated here on the real objects (independently of the model):
  write_gro:records      the file is, byte for byte, title / count / one '%5d%-5s%5s%5d%8.3f…' line per AtomGro of the
                         object in order (+ three '%8.4f' iff the atoms have velocities) / zero box — written out here
                         from the .gro format, without calling gaddlemaps (uniform velocity presence, values that fit)
  write_gro:roundtrip    the real `GroFile` reader returns the same number of records, names, numbers mod 100000,
                         coordinates within 0.0005, velocities within 0.00005, iff the atoms have them
  write_gro:pure         no live object changes (the isolation clause of c18.py, `alloc_only`)
  write_gro:unknown-extension-not-refused / :file-created-for-a-refused-name
  update:length-mismatch an exception, and NOTHING is changed
  update:names           on success exactly the atom names are overwritten, position by position (for a Molecule in
                         the AtomGro and in the AtomTop), every other field of every atom as before
  index:first-equal      `mol.index(x)` is the first k with `mol[k] == x`, ValueError when there is none
  hash:consistent        `hash(view) == hash(view.atom_top)`, and equal views have equal hashes
  dir:set                `dir(view)` / `dir(mol)` list every name of the parts once
"""
from __future__ import annotations

import os
import warnings

import numpy as np

from . import heapgen as hg
from .alisession import TITLE

Y_OPS = ("writegro", "updtop", "molset", "molget", "index", "hash", "dupindex", "idsbad", "resnamebad")
Y_READONLY = ("writegro", "molget", "index", "hash")


# ----------------------------------------------------------------------------- independent expectations

def fits(gros):
    ok = all(len("%8.3f" % float(c)) == 8 and np.isfinite(c) for g in gros for c in g[4])
    return ok and all(len("%8.4f" % float(c)) == 8 and np.isfinite(c) for g in gros if g[5] is not None for c in g[5])


def expected_file(gros):
    """bytes `write_gro` must leave for an object whose AtomGro observations are `gros` (all with or all without
    velocities, at least one)"""
    lines = []
    for (resid, resname, name, atomid, pos, vel) in gros:
        s = "%5d%-5s%5s%5d" % (resid % 100000, resname[:5], name[:5], atomid % 100000) + \
            "".join("%8.3f" % float(c) for c in pos)
        if vel is not None:
            s += "".join("%8.4f" % float(c) for c in vel)
        lines.append(s)
    text = TITLE + "\n" + "%9d\n" % len(lines) + "".join(l + "\n" for l in lines) + \
        " ".join("%9.5f" % 0.0 for _ in range(3)) + "\n"
    return text.encode("latin-1")


def readback_problem(path, gros):
    from gaddlemaps.parsers import GroFile
    with GroFile(path) as f:
        n = f.natoms
        recs = f.readlines()
        box = np.array(f.box_matrix, dtype=float)
        title = f.comment
    if n != len(gros) or len(recs) != len(gros):
        return f"{len(recs)} records (declared {n}) for {len(gros)} atoms"
    for k, (r, g) in enumerate(zip(recs, gros)):
        if len(r) != (7 if g[5] is None else 10):
            return f"record {k} has {len(r)} fields, the atom has {'no ' if g[5] is None else ''}velocities"
        if r[0] != g[0] % 100000 or r[1] != g[1][:5].strip() or r[2] != g[2][:5].strip() or r[3] != g[3] % 100000:
            return f"record {k}: {r[:4]} for atom {g[:4]}"
        if any(abs(float(a) - float(b)) > 0.0005 + 1e-12 * max(1.0, abs(float(b))) for a, b in zip(r[4:7], g[4])):
            return f"record {k}: coordinates {r[4:7]} vs {g[4]}"
        if g[5] is not None and any(abs(float(a) - float(b)) > 0.00005 + 1e-12 for a, b in zip(r[7:10], g[5])):
            return f"record {k}: velocities {r[7:10]} vs {g[5]}"
    if np.abs(box).max() != 0.0:
        return "box is not the zero matrix"
    if title.rstrip("\n") != TITLE:
        return "title " + repr(title)
    return None


def ext_ok(name):
    return os.path.basename(name).split(".")[-1] in ("gro", "GRO")


# ----------------------------------------------------------------------------- grammar

def add_ops(add, kind, crowded):
    """extra (op, weight) pairs of grammar 3 for a handle of this kind"""
    if kind == "mol":
        for name, wt in (("writegro", 3.0), ("updtop", 3.0), ("molset", 3.5), ("molget", 2.0), ("index", 3.5),
                         ("idsbad", 0.8), ("resnamebad", 0.3)):
            add(name, wt)
    elif kind == "res":
        for name, wt in (("writegro", 4.0), ("updtop", 3.0), ("index", 0.3), ("idsbad", 1.0), ("resnamebad", 0.8)):
            add(name, wt)
    elif kind == "agro":
        for name, wt in (("writegro", 0.3), ("updtop", 0.3), ("index", 0.3)):
            add(name, wt)
    elif kind == "atom":
        for name, wt in (("hash", 3.0), ("writegro", 0.3), ("updtop", 0.3)):
            add(name, wt)


def aim(w, rng):
    """(handle, op) aimed at a grammar-3 operation that needs a particular kind of handle"""
    by = {}
    for j, mj in enumerate(w.meta):
        by.setdefault(mj["kind"], []).append(j)
    flow = rng.choice(["writegro", "writegro", "updtop", "updtop", "index", "index", "hash", "molset", "molget", "mixvel",
                       "dupindex"])
    if flow == "dupindex":
        return (rng.choice(by["mol"]), "dupindex")
    if flow == "mixvel":
        # one atom gets (or loses) its velocity: the object then has velocities on SOME atoms only
        c = by.get("atom", []) + by.get("agro", [])
        if c:
            return (rng.choice(c), "set:vel")
        return (rng.choice(by["mol"]), "getatom")
    if flow in ("writegro", "updtop"):
        c = by.get("mol", []) + by.get("res", []) + by.get("res", [])
        return (rng.choice(c), flow)
    if flow == "index":
        views = [j for j in by.get("atom", []) if w.meta[j].get("parent") is not None
                 and w.meta[w.meta[j]["parent"]]["kind"] == "mol"]
        if views and rng.random() < 0.7:
            return (w.meta[rng.choice(views)]["parent"], "index")
        if not by.get("atom"):
            return (rng.choice(by["mol"]), "getatom")
        return (rng.choice(by["mol"]), "index")
    if flow == "hash":
        if by.get("atom"):
            return (rng.choice(by["atom"]), "hash")
        return (rng.choice(by["mol"]), "getatom")
    return (rng.choice(by["mol"]), flow)


MOL_SET_POOL = [("resname", 1), ("resid", 1), ("residname", .7), ("remove_atom", .7),
                ("resids", 3), ("atoms_velocities", 2), ("atoms_positions", 2), ("atoms_ids", 1.5),
                ("molecule_top", .6), ("residues", .6), ("atoms", .6), ("bonds_distance", .4),
                ("geometric_center", .6), ("x", .4), ("distance_to_zero", .4), ("__weakref__", .3),
                ("__class__", .4), ("__dict__", .4), ("__doc__", .6), ("__module__", .4),
                ("resname_len_list", .8), ("fresh", 1.5)]
MOL_SET_LABEL = [("resnames", 2.5), ("name", 3.0)]
MOL_GET_POOL = ["resname", "resid", "residname", "remove_atom", "name", "name", "molecule_top", "residues",
                "copy", "index", "_each_atom_resid", "write_gro", "__eq__", "missing"]


def wpick(rng, pool):
    tot = sum(wt for _, wt in pool)
    x = rng.uniform(0, tot)
    for name, wt in pool:
        x -= wt
        if x <= 0:
            return name
    return pool[-1][0]


def pick_mol_set(w, rng, lab):
    name = wpick(rng, MOL_SET_POOL + (MOL_SET_LABEL if lab else []))
    if name == "resids":
        v = rng.randint(0, 9999) if rng.random() < 0.8 else rng.choice(["7", None])
    elif name == "resnames":
        v = "".join(rng.choice("XYZWQ") for _ in range(rng.randint(1, 5))) if rng.random() < 0.8 else rng.choice([7, None])
    elif name == "name":
        v = "".join(rng.choice("MNOPQ") for _ in range(rng.randint(1, 6)))
    elif name == "atoms_velocities":
        v = rng.choice([None, None, 5, "v", "vec"])
    elif name == "atoms_positions":
        v = rng.choice([5, None, "p", "vec"])
    elif name == "atoms_ids":
        v = rng.choice([5, None])
    elif name == "fresh":
        name, v = "tag%d" % rng.randint(0, 9), rng.randint(0, 99)
    else:
        v = 5
    if isinstance(v, str) and v == "vec":
        v = w.ro(hg.vec(rng, w.stream))
    return name, v


# ----------------------------------------------------------------------------- one step

def _names_of(ob):
    """(gro names, top names or None) of an observation"""
    if ob[0] == "M":
        return [g[2] for g, _ in ob[2]], [t[0] for _, t in ob[2]]
    if ob[0] == "MR":
        # (a molecule whose residues hold fewer atoms than its topology, after `remove_atom`: the views pair the
        # atoms that are left with the first topology atoms; what happens to the rest of the topology is not judged)
        return [g[2] for res in ob[3] for g in res], None
    if ob[0] == "R":
        return [g[2] for g in ob[1]], None
    return None, None


def _strip_names(ob):
    """the observation with every atom name blanked (what `update_from_molecule_top` must leave as it was)"""
    if ob[0] == "M":
        return ("M", ob[1], tuple(((g[0], g[1], "", g[3], g[4], g[5]), ("",) + tuple(t[1:])) for g, t in ob[2]))
    if ob[0] == "MR":
        return ("MR", ob[1], tuple(("",) + tuple(t[1:]) for t in ob[2]),
                tuple(tuple((g[0], g[1], "", g[3], g[4], g[5]) for g in res) for res in ob[3]))
    if ob[0] == "R":
        return ("R", tuple((g[0], g[1], "", g[3], g[4], g[5]) for g in ob[1]))
    return ob


def do_step_y(ctx, c18, w, rng, mode, op, i, rec):
    o = w.env[i]
    m = w.meta[i]
    kind = m["kind"]
    n_env = len(w.env)
    rec["alloc_only"] = op in Y_READONLY
    case = w.case
    by = {}
    for j, mj in enumerate(w.meta):
        by.setdefault(mj["kind"], []).append(j)

    if op == "dupindex":
        # two atoms of one residue made EQUAL (same name, same index) through their views; `index()` of the later one
        # must answer the position of the FIRST (needs a molecule whose labels may be changed)
        sizes = [len(r) for r in o.residues]
        ok_mol = len(o) == sum(sizes) and c18.label_ok(w, i, mode) and any(sz >= 2 for sz in sizes)
        if not ok_mol:
            op = "index"
        else:
            ri = rng.choice([r for r, sz in enumerate(sizes) if sz >= 2])
            off = sum(sizes[:ri])
            k1, k2 = sorted(rng.sample(range(off, off + sizes[ri]), 2))
            try:
                a_name, a_index = str(o[k1].name), int(o[k1].index)
            except Exception:   # noqa: BLE001   (inconsistent molecule)
                a_name = None
            if a_name is None:
                op = "index"
            else:
                st, vb = w.run(f"getatom {i} {k2}", f"mol[{i}] getatom {k2}", lambda: o[k2],
                               {"g": m["g"], "t": m["t"], "parent": i, "k": k2})
                if st != "ok":
                    rec["op"], rec["alloc_only"], rec["status"] = "getatom", True, st
                    return rec
                jb = len(w.env) - 1
                for nm, v in (("name", a_name), ("index", a_index)):
                    w.run(f"setattrn {jb} {hg.hexs(nm)} {c18.tok_pyval(c18.to_pyval(v))}", f"atom[{jb}].{nm}={v!r} (named)",
                          lambda nm=nm, v=v: setattr(vb, nm, v))
                st, ret = w.run(f"index {i} {jb}", f"mol[{i}].index(atom[{jb}])", lambda: (o.index(vb),))
                if st == "ok":
                    w.extra[-1] = c18.to_pyval(ret[0])
                ctx.count(f"index:duplicate-atoms:{st}")
                try:
                    with warnings.catch_warnings():
                        warnings.simplefilter("ignore")
                        eqs = [bool(a == vb) for a in o]
                    want = eqs.index(True) if True in eqs else "ValueError"
                except Exception as e:   # noqa: BLE001   (a molecule made inconsistent earlier: iteration raises)
                    want = hg.exc_name(e)
                ctx.oracle_ok(1)
                got = ret[0] if st == "ok" else st
                if (isinstance(want, int) or want == "ValueError") and got != want:
                    ctx.oracle_fail("c18:index:not-the-first-equal-atom", case, {"op": w.desc[-1], "got": got, "want": want})
                if want == k1:
                    ctx.count("index:duplicate-atoms:first-of-two-equal-atoms")
                rec["op"], rec["alloc_only"], rec["status"] = "setn", False, st
                return rec
    if op == "writegro":
        x = rng.random()
        base = "w%d" % len(w.ops)
        fname = base + (".gro" if x < 0.7 else ".GRO" if x < 0.8 else rng.choice([".Gro", ".pdb", "", ".gro.bak", "."]))
        if x >= 0.97:
            fname = "gro"
        path = os.path.join(w.dir, fname)
        if os.path.exists(path):
            os.unlink(path)
        gros = [hg._gro_obs(a) for a in hg.gro_atoms(o)] if kind in ("mol", "res") else []
        st, _ = w.run(f"writegro {i} {hg.hexs(path)}", f"{kind}[{i}].write_gro({fname!r})", lambda: o.write_gro(path))
        exists = os.path.exists(path)
        data = open(path, "rb").read() if exists else None
        w.extra[-1] = ("W", path if exists else None, data)
        ctx.count(f"writegro:{kind}:{st}")
        if kind in ("mol", "res"):
            ok_ext = ext_ok(path)
            ctx.oracle_ok(1)
            if not ok_ext:
                ctx.count("writegro:unknown-extension")
                if st != "ValueError":
                    ctx.oracle_fail("c18:write_gro:unknown-extension-not-refused", case, {"op": w.desc[-1], "status": st})
                if exists:
                    ctx.oracle_fail("c18:write_gro:file-created-for-a-refused-name", case, {"op": w.desc[-1]})
            else:
                consistent = (kind == "res") or (len(o) == len(gros) and
                                                 all((g[1], g[2]) == (str(t.resname), str(t.name))
                                                     for g, t in zip(gros, o.molecule_top)))
                vels = {g[5] is not None for g in gros}
                if len(vels) == 2:
                    ctx.count(f"writegro:mixed-velocities:{st}")
                if not gros:
                    ctx.count(f"writegro:no-atoms:{st}")
                if not consistent:
                    ctx.count(f"writegro:inconsistent-molecule:{st}")
                if gros and len(vels) == 1 and consistent and fits(gros):
                    ctx.count("writegro:records-checked:" + ("with-velocities" if True in vels else "no-velocities"))
                    ctx.oracle_ok(2)
                    if st != "ok":
                        ctx.oracle_fail("c18:write_gro:raises-" + st, case, {"op": w.desc[-1]})
                    elif data != expected_file(gros):
                        ctx.oracle_fail("c18:write_gro:records", case,
                                        {"op": w.desc[-1], "got": (data or b"")[:400], "want": expected_file(gros)[:400]})
                    else:
                        try:
                            prob = readback_problem(path, gros)
                        except Exception as e:   # noqa: BLE001
                            prob = "reader raises " + hg.exc_name(e)
                        if prob:
                            ctx.oracle_fail("c18:write_gro:roundtrip", case, {"op": w.desc[-1], "problem": prob})
        if exists:
            os.unlink(path)
    elif op == "updtop":
        mols = by.get("mol", [])
        x = rng.random()
        same_t = [j for j in mols if w.meta[j]["t"] == m.get("t")] if kind == "mol" else []
        lab = c18.label_ok(w, i, mode)
        if kind == "mol" and (not lab or x < 0.25):
            j = rng.choice(same_t)                      # its own (shared) topology: names stay what they are
            how = "own-topology"
        elif kind in ("res", "agro") and not lab and x < 0.7:
            # a residue that belongs to a molecule: mostly a topology of another length (refused)
            nme = len(o) if kind == "res" else 0
            c = [j for j in mols if len(w.env[j].molecule_top) != nme] or mols
            j, how = rng.choice(c), "other-length"
        else:
            nme = len(o) if kind in ("mol", "res") else 0
            fit = [j for j in mols if len(w.env[j].molecule_top) == nme]
            if fit and x < 0.8:
                j, how = rng.choice(fit), "same-length"
            else:
                j, how = rng.choice(mols), "any"
        p = w.env[j]
        mt = p.molecule_top
        before = hg.observe(o)
        st, _ = w.run(f"updtop {i} {j}", f"{kind}[{i}].update_from_molecule_top(mol[{j}].molecule_top)",
                      lambda: o.update_from_molecule_top(mt))
        after = hg.observe(o)
        ctx.count(f"updtop:{kind}:{how}:{st}")
        if kind in ("mol", "res"):
            nself = len(o)
            want_names = [str(a.name) for a in mt]
            ctx.oracle_ok(2)
            if len(mt) != nself:
                rec["alloc_only"] = True                # nothing at all may change
                if st == "ok":
                    ctx.oracle_fail("c18:update:length-mismatch-not-refused", case, {"op": w.desc[-1]})
                elif st != "ValueError":
                    ctx.count(f"updtop:mismatch-raises-{st}-instead-of-ValueError:{kind}")
                if not hg.bits_equal(before, after):
                    ctx.oracle_fail("c18:update:changed-before-the-length-check", case, {"op": w.desc[-1]})
            elif st == "ok" and len({id(a) for a in hg.gro_atoms(o)}) != len(hg.gro_atoms(o)):
                # `atom + atom` with the same atom twice builds a Residue that holds one object twice: the later name wins
                ctx.count("updtop:residue-holds-an-atom-twice")
            elif st == "ok":
                gn, tn = _names_of(after)
                if gn is not None and gn != want_names[:len(gn)]:
                    ctx.oracle_fail("c18:update:names-not-those-of-the-topology", case,
                                    {"op": w.desc[-1], "got": gn, "want": want_names})
                if tn is not None and tn != want_names:
                    ctx.oracle_fail("c18:update:topology-names-not-updated", case,
                                    {"op": w.desc[-1], "got": tn, "want": want_names})
                if not hg.bits_equal(_strip_names(before), _strip_names(after)):
                    ctx.oracle_fail("c18:update:something-else-than-names-changed", case,
                                    {"op": w.desc[-1], "before": before, "after": after})
                if gn is not None and gn != _names_of(before)[0]:
                    ctx.count("updtop:names-actually-changed")
    elif op == "molset":
        lab = c18.label_ok(w, i, mode)
        name, v = pick_mol_set(w, rng, lab)
        pv = c18.to_pyval(v)
        st, _ = w.run(f"molset {i} {hg.hexs(name)} {c18.tok_pyval(pv)}", f"mol[{i}].{name}={v!r} (named)",
                      lambda: setattr(o, name, v))
        ctx.count(f"molset:{name if not name.startswith('tag') else 'fresh'}:{pv[0]}:{st}")
    elif op == "molget":
        name = rng.choice(MOL_GET_POOL)
        if name == "missing":
            name = "missing%d" % rng.randint(0, 9)
        st, ret = w.run(f"molget {i} {hg.hexs(name)}", f"getattr(mol[{i}], {name!r})", lambda: (getattr(o, name),))
        if st == "ok":
            w.extra[-1] = c18.to_pyval(ret[0])
        ctx.count(f"molget:{name if not name.startswith('missing') else 'missing'}:{st}")
    elif op == "index":
        x = rng.random()
        views = [j for j in by.get("atom", [])]
        own = [j for j in views if w.meta[j].get("parent") == i]
        if kind == "mol" and own and x < 0.45:
            j, how = rng.choice(own), "own-view"
        elif views and x < 0.85:
            j, how = rng.choice(views), "some-view"
        else:
            j, how = rng.randrange(n_env), "any"
        p = w.env[j]
        st, ret = w.run(f"index {i} {j}", f"{kind}[{i}].index({w.meta[j]['kind']}[{j}])", lambda: (o.index(p),))
        if st == "ok":
            w.extra[-1] = c18.to_pyval(ret[0])
        ctx.count(f"index:{kind}:{how}:{st}")
        if st != "ok":
            # "not found" is reported with a message that formats the argument: an argument whose `str` raises (a
            # Residue emptied by `remove_atom`) makes the refusal carry THAT exception class.  The clause is about which
            # index is answered; for a refusal only "it is refused" is compared.
            try:
                with warnings.catch_warnings():
                    warnings.simplefilter("ignore")
                    str(p)
            except Exception:   # noqa: BLE001
                w.any_error.add(len(w.status) - 1)
                ctx.count("index:argument-without-str")
        if kind == "mol":
            # the clause, with the library's own `==` on the atoms the molecule hands out
            try:
                with warnings.catch_warnings():
                    warnings.simplefilter("ignore")
                    eqs = [bool(a == p) for a in o]
                want = eqs.index(True) if True in eqs else "ValueError"
            except Exception as e:   # noqa: BLE001   (inconsistent molecule: iteration raises)
                want = hg.exc_name(e)
            got = ret[0] if st == "ok" else st
            ctx.oracle_ok(1)
            if isinstance(want, int) or want == "ValueError":
                if got != want and not (want == "ValueError" and st != "ok" and (len(w.status) - 1) in w.any_error):
                    ctx.oracle_fail("c18:index:not-the-first-equal-atom", case, {"op": w.desc[-1], "got": got, "want": want})
                if how == "own-view" and isinstance(want, int) and w.meta[j].get("k") == want:
                    ctx.count("index:own-view-found-at-its-position")
    elif op in ("idsbad", "resnamebad"):
        rec["alloc_only"] = True            # refused before anything is assigned: nothing at all may change
        if op == "idsbad":
            nl = len(o)
            nn = nl if rng.random() < 0.7 else max(0, nl + rng.choice([-1, 1]))
            bad = [1.5] * nn if rng.random() < 0.6 else ["7"] * nn

            def fn():
                o.atoms_ids = bad
            st, _ = w.run(f"idsbad {i} {nn}", f"{kind}[{i}].atoms_ids={bad!r}", fn)
        else:
            def fn():
                o.resname = 7
            st, _ = w.run(f"resnamebad {i}", f"{kind}[{i}].resname=7", fn)
        ctx.count(f"{op}:{kind}:{st}")
        ctx.oracle_ok(1)
        if op == "idsbad" and nn == 0 and nl == 0:
            # the EMPTY list for an object without atoms (a residue emptied by `remove_atom`) holds no ill-typed value
            ctx.count("idsbad:empty-list-for-an-empty-object:" + st)
        elif st == "ok":
            ctx.oracle_fail(f"c18:setter:ill-typed-value-accepted:{op}", case, {"op": w.desc[-1]})
    elif op == "hash":
        st, ret = w.run(f"hash {i}", f"hash(atom[{i}])", lambda: (hash(o),))
        if st == "ok":
            w.extra[-1] = c18.to_pyval(ret[0])
            ctx.oracle_ok(1)
            if ret[0] != hash(o.atom_top) or ret[0] != hash(int(o.atom_top.index)):
                ctx.oracle_fail("c18:hash:not-the-topology-atom's", case, {"op": w.desc[-1]})
            for j in by.get("atom", []):
                q = w.env[j]
                try:
                    if q == o and hash(q) != ret[0]:
                        ctx.oracle_fail("c18:hash:equal-atoms-different-hash", case, {"op": w.desc[-1], "other": j})
                except Exception:   # noqa: BLE001
                    pass
        ctx.count(f"hash:{st}")
    else:  # pragma: no cover
        raise ValueError(op)
    rec["status"] = st
    return rec


# ----------------------------------------------------------------------------- model-side extras

def extra_y(ctx, case, k, cur, world, mst, tol, values):
    """tokens the model puts after the status of a grammar-3 operation"""
    name = world.ops[k].split(" ", 1)[0]
    if name == "writegro":
        if cur.tok() != "W":
            raise ValueError("expected W")
        t = cur.tok()
        got = ("W", None, None)
        if t == "F":
            got = ("W", cur.str(), bytes.fromhex("" if (b := cur.tok()) == "-" else b))
        want = world.extra[k]
        if mst == world.status[k] and (want[1], want[2]) != (got[1], got[2]):
            ctx.disagree(case, f"C18 heap model: file of op {k} ({world.desc[k]})",
                         [want[1], (want[2] or b"")[:600]], [got[1], (got[2] or b"")[:600]])
        return True
    if name in ("molget", "index", "hash"):
        if mst == "ok":
            if cur.tok() != "V":
                raise ValueError("expected V")
            got = cur.pyval()
            want = world.extra[k]
            if world.status[k] == "ok" and not hg.obs_close(want, got, tol):
                ctx.disagree(case, f"C18 heap model: value of op {k} ({world.desc[k]})", want, got)
        return True
    return False


# ----------------------------------------------------------------------------- the routing table of Molecule, dir()

SENT = 12345


def _scratch_molecule(ctx):
    from gaddlemaps.components import Molecule
    d = os.path.join(ctx.scratch, "apiy-routes")
    os.makedirs(d, exist_ok=True)
    sp = {"name": "SPR", "atoms": [(1, "RA", "A1"), (1, "RA", "A2"), (2, "RB", "B1")], "bonds": [(0, 1), (1, 2)],
          "sizes": [2, 1]}
    fitp, fgro = os.path.join(d, "r.itp"), os.path.join(d, "r.gro")
    hg.write_itp(fitp, sp)
    hg.write_gro(fgro, [hg.gro_line(r, rn, an, k + 1, (0.125 * k, 0.0, 0.25)) for k, (r, rn, an) in enumerate(sp["atoms"])])
    return Molecule.from_files(fgro, fitp)


def real_mol_route(ctx, name):
    """what the REAL `Molecule.__setattr__` does with `mol.<name> = 12345` on a scratch molecule: exception class
    and the set of (object, key) whose value became 12345 — object in {'mol', 'mtop', 'atop', 'agro'}"""
    mol = _scratch_molecule(ctx)
    d = object.__getattribute__(mol, "__dict__")
    top = d["_molecule_top"] if "_molecule_top" in d else mol.molecule_top
    residues = list(d["_residues"] if "_residues" in d else mol.residues)
    exc = None
    try:
        with warnings.catch_warnings():
            warnings.simplefilter("ignore")
            setattr(mol, name, SENT)
    except Exception as e:   # noqa: BLE001
        exc = hg.exc_name(e)
    landed = set()

    def scan(where, obj):
        for k, v in object.__getattribute__(obj, "__dict__").items():
            if isinstance(v, int) and not isinstance(v, bool) and v == SENT:
                landed.add((where, k))
    scan("mol", mol)
    scan("mtop", top)
    for a in top.atoms:
        scan("atop", a)
    for r in residues:
        for a in r:
            scan("agro", a)
    return exc, landed


def expected_from_mol_tag(tag, name):
    head, _, field = tag.partition(":")
    if head in ("ownSlot", "ownState", "ownDict", "fresh"):
        return None, {("mol", name)}
    if head in ("excluded", "ownReadOnly", "topReadOnly"):
        return "AttributeError", set()
    if head == "ownTypeErr":
        return "TypeError", set()
    if head == "ownProp":
        # the setter runs on the int 12345 (what `molPropSet` says for an int)
        if field == "resids":
            return None, {("atop", "resid"), ("agro", "resid")}
        if field in ("resnames", "atoms_ids"):
            return "TypeError", set()
        return "AttributeError", set()
    if head == "topName":
        return None, {("mtop", "name")}
    if head == "topOther":
        return None, {("mtop", name)}
    return "?", set()


def evaluate_mol_routes(ctx, case):
    mol = _scratch_molecule(ctx)
    names = set(object.__dir__(mol)) | set(dir(mol.molecule_top))
    names |= {"resid", "resname", "residname", "remove_atom", "foo", "tag0", "missing1", "Name", "names", "resnames_",
              "atoms_position", "velocities", "top", "_molecule_tops", "_residue", "each_atom_resid"}
    names = sorted(n for n in names if all(32 < ord(c) < 127 for c in n))
    for name in names:
        exc, landed = real_mol_route(ctx, name)
        ctx.count("molroute:%s:%s" % (exc or "ok", "+".join(sorted({w_ for w_, _ in landed})) or "-"))

        def cb(status, toks, case, name=name, exc=exc, landed=landed):
            tag = toks[0] if status == "ok" and toks else status
            want = expected_from_mol_tag(tag, name)
            if want != (exc, landed):
                ctx.disagree(case, f"C18 routing table of Molecule: mol.{name} = v  (model route {tag})",
                             (exc, sorted(landed)), (want[0], sorted(want[1])))
        ctx.model.ask("molroute", hg.hexs(name), cb, case)
    # --- dir(): set semantics
    view = mol[0]
    for what, obj, parts in (("atom", view, (list(object.__dir__(view)), dir(view.atom_gro), dir(view.atom_top))),
                             ("molecule", mol, (list(object.__dir__(mol)), dir(mol.molecule_top), []))):
        got = list(dir(obj))           # `dir()` sorts what `__dir__` returns
        raw = list(type(obj).__dir__(obj))
        ctx.oracle_ok(2)
        if len(raw) != len(set(raw)):
            ctx.oracle_fail(f"c18:dir:name-listed-twice:{what}", case, {"n": len(raw), "distinct": len(set(raw))})
        missing = [n for part in parts for n in part if n not in raw]
        extra = [n for n in raw if not any(n in part for part in parts)]
        if missing or extra:
            ctx.oracle_fail(f"c18:dir:not-the-union-of-the-parts:{what}", case, {"missing": missing[:8], "extra": extra[:8]})
        ctx.count(f"dir:{what}:names={len(raw)}")

        def cbd(status, toks, case, got=got, what=what):
            if status != "ok":
                ctx.disagree(case, "dirunion", "ok", status)
                return
            cur = hg.Cursor(toks)
            m = [cur.str() for _ in range(cur.int())]
            if m != sorted(got):
                ctx.disagree(case, f"C18 dir({what})", sorted(got)[:60], m[:60])
        enc = " ".join(" ".join([str(len(p))] + [hg.hexs(n) for n in p]) for p in parts)
        ctx.model.ask("dirunion", enc, cbd, case)
    # --- Molecule.from_files: a file with ONE molecule gives that molecule, with two it is refused (IOError)
    from gaddlemaps.components import Molecule, System
    d = os.path.join(ctx.scratch, "apiy-routes")
    sp = {"name": "SPR", "atoms": [(1, "RA", "A1"), (1, "RA", "A2"), (2, "RB", "B1")], "bonds": [(0, 1), (1, 2)],
          "sizes": [2, 1]}
    f2 = os.path.join(d, "r2.gro")
    lines = [hg.gro_line(r + 2 * m_, rn, an, k + 1 + 3 * m_, (0.125 * k, 0.5 * m_, 0.25))
             for m_ in range(2) for k, (r, rn, an) in enumerate(sp["atoms"])]
    hg.write_gro(f2, lines)
    ctx.oracle_ok(2)
    try:
        Molecule.from_files(f2, os.path.join(d, "r.itp"))
        ctx.oracle_fail("c18:from_files:two-molecules-not-refused", case, {})
    except OSError:
        ctx.count("from_files:two-molecules:OSError")
    except Exception as e:   # noqa: BLE001
        ctx.oracle_fail("c18:from_files:two-molecules-raises-" + hg.exc_name(e), case, {})
    one = Molecule.from_files(os.path.join(d, "r.gro"), os.path.join(d, "r.itp"))
    if hg.observe(one) != hg.observe(System(os.path.join(d, "r.gro"), os.path.join(d, "r.itp"))[0]):
        ctx.oracle_fail("c18:from_files:not-the-system's-only-molecule", case, {})
    ctx.case({"kind": "molroutes", "names": len(names)}, nontrivial=False, sample={"names": names[:8], "n": len(names)})
