"""
harness.common — shared machinery of every check:

  * bit-exact float / string codecs for the line protocol,
  * the batch pipe to the Lean model driver (`gmdriver`),
  * the Lean gate (build, forbidden-token grep, `#print axioms` audit of the property's
    registered theorems, optional leanchecker),
  * case bookkeeping (evaluations, distinct non-trivial cases, samples, branch counters),
  * the verdict logic of DESIGN.md §2.4 (oracle failures vs. model disagreements vs. broken gate,
    known findings) and the evidence writer.

Everything random derives from one `random.Random(VERIF_SEED)`.
"""
from __future__ import annotations

import contextlib
import hashlib
import json
import math
import os
import random
import re
import struct
import subprocess
import sys
import time
from pathlib import Path

VERIF = Path(__file__).resolve().parent.parent
LEAN = VERIF / "lean"
DRIVER = LEAN / ".lake" / "build" / "bin" / "gmdriver"
# evidence/ holds only what the registered commands wrote about /repo itself; a run against a scratch worktree
# ($VERIF_REPO: developing a fix, trying a seeded defect) writes under scratch/ (git-ignored) instead
EVIDENCE = (VERIF / "evidence") if not os.environ.get("VERIF_REPO") else (VERIF / "scratch" / "evidence")
REPLAYS = VERIF / "replays"
CORPUS = VERIF / "corpus"
KNOWN = VERIF / "known_findings.json"
OBLIGATIONS = LEAN / "obligations"      # one <ID>.json per property

ALLOWED_AXIOMS = {"propext", "Classical.choice", "Quot.sound"}
FORBIDDEN = re.compile(
    r"\bsorry\b|\badmit\b|^\s*axiom\s|native_decide|bv_decide|implemented_by|\bunsafe\s|maxHeartbeats\s+0\b",
    re.M)


# ----------------------------------------------------------------------------- codecs

def fbits(x: float) -> str:
    return str(struct.unpack("<Q", struct.pack("<d", float(x)))[0])


def unfbits(s: str) -> float:
    return struct.unpack("<d", struct.pack("<Q", int(s)))[0]


def hexs(s) -> str:
    if isinstance(s, str):
        s = s.encode("latin-1")
    return s.hex() if s else "-"


def unhexs(t: str) -> str:
    return "" if t == "-" else bytes.fromhex(t).decode("latin-1")


def v3(v) -> str:
    return " ".join(fbits(c) for c in v)


def vlist(vs) -> str:
    vs = list(vs)
    return " ".join([str(len(vs))] + [v3(v) for v in vs])


def ilist(xs) -> str:
    xs = list(xs)
    return " ".join([str(len(xs))] + [str(int(x)) for x in xs])


def close(a: float, b: float, tol: float) -> bool:
    """float observables: NaN-ness and infinities exactly, else relative/absolute tolerance"""
    if math.isnan(a) or math.isnan(b):
        return math.isnan(a) and math.isnan(b)
    if math.isinf(a) or math.isinf(b):
        return a == b
    return abs(a - b) <= tol * max(1.0, abs(a), abs(b))


def allclose(xs, ys, tol: float) -> bool:
    xs = list(xs)
    ys = list(ys)
    return len(xs) == len(ys) and all(close(float(a), float(b), tol) for a, b in zip(xs, ys))


def jsonable(x):
    """make numpy things JSON-serialisable, floats kept exact through repr round-trip"""
    try:
        import numpy as np
    except Exception:  # pragma: no cover
        np = None
    if np is not None:
        if isinstance(x, np.ndarray):
            return jsonable(x.tolist())
        if isinstance(x, np.generic):
            return jsonable(x.item())
    if isinstance(x, float):
        if math.isnan(x):
            return "nan"
        if math.isinf(x):
            return "inf" if x > 0 else "-inf"
        return x
    if isinstance(x, (list, tuple)):
        return [jsonable(i) for i in x]
    if isinstance(x, dict):
        return {str(k): jsonable(v) for k, v in x.items()}
    if isinstance(x, (set, frozenset)):
        return sorted(jsonable(i) for i in x)
    if isinstance(x, bytes):
        return x.decode("latin-1")
    return x


def unjson_float(x):
    if x == "nan":
        return float("nan")
    if x == "inf":
        return float("inf")
    if x == "-inf":
        return float("-inf")
    return float(x)


# ----------------------------------------------------------------------------- lean gate

class GateError(Exception):
    pass


def _lake_env():
    env = dict(os.environ)
    return env


def lean_build() -> tuple[bool, str]:
    p = subprocess.run(["lake", "build"], cwd=LEAN, capture_output=True, text=True, env=_lake_env())
    ok = p.returncode == 0 and DRIVER.exists()
    return ok, (p.stdout + p.stderr)[-4000:]


def strip_comments(src: str) -> str:
    # remove block comments (nested) and line comments
    out = []
    i, depth, n = 0, 0, len(src)
    while i < n:
        if src.startswith("/-", i):
            depth += 1
            i += 2
        elif depth and src.startswith("-/", i):
            depth -= 1
            i += 2
        elif depth:
            if src[i] == "\n":
                out.append("\n")
            i += 1
        elif src.startswith("--", i):
            while i < n and src[i] != "\n":
                i += 1
        else:
            out.append(src[i])
            i += 1
    return "".join(out)


def forbidden_tokens() -> list[str]:
    hits = []
    for f in sorted(LEAN.rglob("*.lean")):
        if ".lake" in f.parts:
            continue
        body = strip_comments(f.read_text())
        # string literals may legitimately contain words; drop them
        body = re.sub(r'"(?:\\.|[^"\\])*"', '""', body)
        for m in FORBIDDEN.finditer(body):
            line = body.count("\n", 0, m.start()) + 1
            hits.append(f"{f.relative_to(LEAN)}:{line}:{m.group(0).strip()}")
    return hits


def obligations_for(pid: str) -> dict:
    f = OBLIGATIONS / f"{pid}.json"
    if not f.exists():
        return {"module": None, "theorems": [], "examples": 0, "partial": []}
    return json.loads(f.read_text())


def audit_axioms(pid: str) -> dict:
    """`#print axioms` for every theorem registered for the property; returns
    {theorem: [axioms]} and raises GateError if one is missing / uses a foreign axiom."""
    ob = obligations_for(pid)
    if not ob.get("module"):
        raise GateError(f"no Lean module registered for {pid}")
    mods = ob["module"] if isinstance(ob["module"], list) else [ob["module"]]
    src = "".join(f"import {m}\n" for m in mods)
    for t in ob["theorems"]:
        src += f"#print axioms {t}\n"
    p = subprocess.run(["lake", "env", "lean", "--stdin"], cwd=LEAN, input=src,
                       capture_output=True, text=True, env=_lake_env())
    out = p.stdout + p.stderr
    if p.returncode != 0:
        raise GateError("axiom audit failed to elaborate: " + out[-2000:])
    res = {}
    # "'name' depends on axioms: [a, b]"  or  "'name' does not depend on any axioms"
    for m in re.finditer(r"'([^']+)' depends on axioms: \[([^\]]*)\]", out, re.S):
        res[m.group(1)] = [a.strip() for a in m.group(2).replace("\n", " ").split(",") if a.strip()]
    for m in re.finditer(r"'([^']+)' does not depend on any axioms", out):
        res[m.group(1)] = []
    missing = [t for t in ob["theorems"] if t not in res]
    if missing:
        raise GateError(f"theorems not found in audit output: {missing}")
    bad = {t: a for t, a in res.items() if not set(a) <= ALLOWED_AXIOMS}
    if bad:
        raise GateError(f"foreign axioms: {bad}")
    return res


def leanchecker(pid: str) -> tuple[bool, str]:
    ob = obligations_for(pid)
    mods = ob["module"] if isinstance(ob["module"], list) else [ob["module"]]
    p = subprocess.run(["lake", "env", "leanchecker"] + mods, cwd=LEAN,
                       capture_output=True, text=True, env=_lake_env())
    return p.returncode == 0, (p.stdout + p.stderr)[-2000:]


# ----------------------------------------------------------------------------- driver pipe

class Model:
    """Batch pipe to gmdriver: queue (op, tokens, callback); flush() runs the driver once."""

    def __init__(self):
        self.queue = []
        self.n = 0
        self.lines_sent = 0

    def ask(self, op: str, tokens: str, cb, case=None):
        self.n += 1
        self.queue.append((self.n, f"{self.n} {op} {tokens}".rstrip(), cb, case))

    def flush(self, ctx):
        if not self.queue:
            return
        q, self.queue = self.queue, []
        data = "\n".join(l for _, l, _, _ in q) + "\n"
        p = subprocess.run([str(DRIVER)], input=data, capture_output=True, text=True)
        if p.returncode != 0:
            raise GateError(f"gmdriver exited {p.returncode}: {p.stderr[-500:]}")
        outs = p.stdout.splitlines()
        if len(outs) != len(q):
            raise GateError(f"gmdriver returned {len(outs)} lines for {len(q)} requests")
        self.lines_sent += len(q)
        for (i, line, cb, case), out in zip(q, outs):
            t = out.split()
            if not t or t[0] != str(i):
                raise GateError(f"gmdriver response out of sync: {out[:200]}")
            if len(t) > 1 and t[1] == "bad":
                # protocol error = harness/model bug, never a verdict about the code
                raise GateError(f"gmdriver rejected request '{line[:200]}': {out[:200]}")
            cb(t[1], t[2:], case)


# ----------------------------------------------------------------------------- run context

class Ctx:
    def __init__(self, pid: str, tier: str, seed: int):
        self.pid, self.tier, self.seed = pid, tier, seed
        self.rng = random.Random(f"{pid}-{seed}")
        self.t0 = time.time()
        self.model = Model()
        self.evaluations = 0
        self.nontrivial_hashes = set()
        self.samples = []
        self.counters = {}
        self.disagreements = []   # model vs implementation
        self.oracle_failures = []  # property predicate false on the implementation
        self.near_ties = 0
        self.oracle_evals = 0
        self.gate = {"ok": False}
        self.rule = ""
        self.extra = {}
        # VERIF_BUDGET_SCALE: run a tier with a larger case budget (what the change-directed budget does when a
        # source file differs from the validated state) — used to test that the unchanged tree stays quiet there too
        self.budget_scale = float(os.environ.get("VERIF_BUDGET_SCALE", "1"))

    # -- bookkeeping
    def quick(self) -> bool:
        return self.tier == "quick"

    def n(self, quick: int, thorough: int) -> int:
        return max(1, int((quick if self.quick() else thorough) * self.budget_scale))

    def count(self, key: str, k: int = 1):
        self.counters[key] = self.counters.get(key, 0) + k

    def case(self, desc, nontrivial: bool, sample=None):
        self.evaluations += 1
        if nontrivial:
            h = hashlib.sha1(json.dumps(jsonable(desc), sort_keys=True).encode()).hexdigest()
            self.nontrivial_hashes.add(h)
        if len(self.samples) < 5 and (nontrivial or not self.samples):
            self.samples.append(jsonable(sample if sample is not None else desc))

    def disagree(self, case, what: str, impl, model):
        self.disagreements.append({"case": jsonable(case), "what": what,
                                   "implementation": jsonable(impl), "model": jsonable(model)})

    def oracle_fail(self, key: str, case, detail):
        self.oracle_failures.append({"key": key, "case": jsonable(case), "detail": jsonable(detail)})

    def oracle_ok(self, k: int = 1):
        self.oracle_evals += k


def load_known() -> list[dict]:
    if KNOWN.exists():
        return json.loads(KNOWN.read_text()).get("findings", [])
    return []


def corpus_cases(pid: str) -> list[dict]:
    d = CORPUS / pid
    if not d.is_dir():
        return []
    return [json.loads(f.read_text()) for f in sorted(d.glob("*.json"))]


def write_replay(ctx: Ctx, kind: str, payload: dict, idx: int) -> Path:
    REPLAYS.mkdir(exist_ok=True)
    path = REPLAYS / f"{ctx.pid}-{ctx.tier}-{ctx.seed}-{kind}-{idx}.json"
    doc = {"property": ctx.pid, "tier": ctx.tier, "seed": ctx.seed, "kind": kind}
    doc.update(payload)
    path.write_text(json.dumps(jsonable(doc), indent=1))
    return path


def write_evidence(ctx: Ctx, violations: int, known_hit: list[str]):
    EVIDENCE.mkdir(parents=True, exist_ok=True)
    ob = obligations_for(ctx.pid)
    n_obl = len(ob.get("theorems", [])) + int(ob.get("examples", 0))
    discharged = 0
    if ctx.gate.get("ok"):
        discharged = len(ctx.gate.get("axioms", {})) + int(ob.get("examples", 0))
    cov = {
        "obligations": n_obl,
        "discharged": discharged,
        "checker_cmd": ("cd lean && lake build && printf 'import <module>\\n#print axioms <thm>…' | lake env lean --stdin"
                        + ("  &&  lake env leanchecker <modules>" if ctx.tier == "thorough" else "")),
        "trusted_base": [
            "Lean 4.33.0 kernel + elaborator; Mathlib v4.33.0 modules imported by GMProofs",
            "axioms used by the registered theorems (audited on this run): "
            + ", ".join(sorted({a for v in ctx.gate.get("axioms", {}).values() for a in v}) or ["none"]),
            "hand-written model GMModel/* — tied to /repo by the correspondence run below (differential, "
            "coverage as reported)",
            "harness/ (Python): generators, canonicalisation, tolerances; gmdriver (Lean compiler/runtime, IEEE Float, libm)",
            "numpy/scipy/CPython primitives are modelled, not verified (DESIGN.md §3)",
        ],
        "theorems": ob.get("theorems", []),
        "examples": ob.get("examples", 0),
        "partial": ob.get("partial", []),
        "axioms": ctx.gate.get("axioms", {}),
        "gate": {k: v for k, v in ctx.gate.items() if k != "axioms"},
        "evaluations": ctx.evaluations,
        "distinct_nontrivial": len(ctx.nontrivial_hashes),
        "rule": ctx.rule,
        "samples": ctx.samples[:5],
        "correspondence": {
            "model_requests": ctx.model.lines_sent,
            "disagreements": len(ctx.disagreements),
            "numeric_near_tie": ctx.near_ties,
            "first_disagreements": ctx.disagreements[:3],
        },
        "oracle": {"evaluations": ctx.oracle_evals, "failures": len(ctx.oracle_failures)},
        "branch_counters": dict(sorted(ctx.counters.items())),
        "known_findings_hit": known_hit,
    }
    cov.update(ctx.extra)
    doc = {
        "property_id": ctx.pid,
        "tier": ctx.tier,
        "seed": ctx.seed,
        "level": "proof",
        "coverage": cov,
        "assumptions": [
            "theorems are about the Lean model (ℝ arithmetic for geometry); float rounding accumulation is not modelled",
            "the correspondence is differential testing of model vs /repo working tree on generated inputs",
        ],
        "wall_s": round(time.time() - ctx.t0, 2),
        "violations": violations,
    }
    (EVIDENCE / f"{ctx.pid}.json").write_text(json.dumps(jsonable(doc), indent=1))


def run_gate(ctx: Ctx):
    g = {"ok": False}
    ok, log = lean_build()
    g["build_ok"] = ok
    if not ok:
        g["build_log"] = log[-1500:]
    bad = forbidden_tokens()
    g["forbidden_tokens"] = bad
    try:
        ax = audit_axioms(ctx.pid) if ok else {}
        g["axioms"] = ax
        g["audit_ok"] = ok
    except GateError as e:
        g["axioms"] = {}
        g["audit_ok"] = False
        g["audit_error"] = str(e)[-1500:]
    if ctx.tier == "thorough" and ok and os.environ.get("VERIF_SKIP_LEANCHECKER") != "1":
        lc_ok, lc_log = leanchecker(ctx.pid)
        g["leanchecker_ok"] = lc_ok
        if not lc_ok:
            g["leanchecker_log"] = lc_log
    else:
        g["leanchecker_ok"] = None
    g["ok"] = bool(ok and not bad and g["audit_ok"] and g["leanchecker_ok"] is not False)
    ctx.gate = g


def finish(ctx: Ctx, extended_search=None) -> int:
    """verdict (DESIGN.md §2.4). Returns the process exit code."""
    known = [k for k in load_known() if k.get("property") == ctx.pid and k.get("status") == "open"]
    known_keys = {k["key"]: k for k in known}
    violations = 0
    known_hit = []
    lines = []

    new_fail = [f for f in ctx.oracle_failures if f["key"] not in known_keys]
    for f in ctx.oracle_failures:
        if f["key"] in known_keys and f["key"] not in known_hit:
            known_hit.append(f["key"])
    for k in known_hit:
        lines.append(f"KNOWN-FINDING: property={ctx.pid} {known_keys[k].get('what', k)}")

    if new_fail:
        # group by key: one VIOLATION line per distinct failure class, smallest case first
        by_key = {}
        for f in new_fail:
            by_key.setdefault(f["key"], []).append(f)
        for i, (key, fs) in enumerate(sorted(by_key.items())):
            fs.sort(key=lambda f: len(json.dumps(f["case"])))
            path = write_replay(ctx, "violation", {
                "finding_key": key, "case": fs[0]["case"], "detail": fs[0]["detail"],
                "occurrences": len(fs),
                "model_disagreements_on_run": len(ctx.disagreements)}, i)
            lines.append(f"VIOLATION property={ctx.pid} replay={path}")
            violations += 1
    elif ctx.disagreements or not ctx.gate.get("ok"):
        # the proof/correspondence no longer checks and the oracle found no failing input
        if extended_search is not None and ctx.disagreements:
            extended_search()
            new_fail = [f for f in ctx.oracle_failures if f["key"] not in known_keys]
        if new_fail:
            new_fail.sort(key=lambda f: len(json.dumps(f["case"])))
            path = write_replay(ctx, "violation", {
                "finding_key": new_fail[0]["key"], "case": new_fail[0]["case"],
                "detail": new_fail[0]["detail"], "found_by": "extended search after model disagreement"}, 0)
            lines.append(f"VIOLATION property={ctx.pid} replay={path}")
        else:
            ob = obligations_for(ctx.pid)
            what = ("correspondence GMModel vs /repo for " + ctx.pid) if ctx.disagreements else "lean gate"
            path = write_replay(ctx, "unproved", {
                "no_longer_checks": what,
                "theorems_resting_on_it": ob.get("theorems", []),
                "gate": {k: v for k, v in ctx.gate.items() if k != "axioms"},
                "disagreements": ctx.disagreements[:10]}, 0)
            lines.append(f"VIOLATION property={ctx.pid} replay={path} no-failing-input-found")
        violations += 1

    write_evidence(ctx, violations, known_hit)
    for l in lines:
        print(l)
    sys.stdout.flush()
    return 1 if violations else 0


def summary(ctx: Ctx):
    print(f"[{ctx.pid} {ctx.tier} seed={ctx.seed}] gate_ok={ctx.gate.get('ok')} "
          f"evaluations={ctx.evaluations} distinct_nontrivial={len(ctx.nontrivial_hashes)} "
          f"model_requests={ctx.model.lines_sent} disagreements={len(ctx.disagreements)} "
          f"oracle_evals={ctx.oracle_evals} oracle_failures={len(ctx.oracle_failures)} "
          f"wall={time.time() - ctx.t0:.1f}s")
    if ctx.counters:
        print("  branches: " + ", ".join(f"{k}={v}" for k, v in sorted(ctx.counters.items())))


# ----------------------------------------------------------------------------- decoy loads

_DECOY_ITP = b"[ moleculetype ]\nDECOY 1\n[ atoms ]\n1 C 1 DEC A1 1\n2 C 1 DEC A2 2\n[ bonds ]\n1 2 1\n"
_DECOY_GRO = (b"decoy\n    2\n    1DEC     A1    1   0.100   0.200   0.300\n"
              b"    1DEC     A2    2   0.400   0.500   0.600\n   1.00000   1.00000   1.00000\n")
# a second coordinate decoy with velocities: 68-column atom lines, as long as a %16.11f positions-only line (a layout
# remembered per line LENGTH — seed C12-10 — then misreads the wide file that follows)
_DECOY_GRO_V = (b"decoy with velocities\n    2\n"
                b"    1DEC     A1    1   0.100   0.200   0.300  0.1000  0.2000  0.3000\n"
                b"    1DEC     A2    2   0.400   0.500   0.600 -0.1000 -0.2000 -0.3000\n"
                b"   1.00000   1.00000   1.00000\n")

_decoy_calls = [0]


@contextlib.contextmanager
def quiet():
    """silence the warnings a library call may emit (degenerate geometry: 0/0, …) WITHOUT touching numpy's floating-point
    error state: `np.errstate(all="ignore")`, used here before, overrode exactly what a change like seed C17-11
    (`np.seterr(all='raise')` at import of a module of the package) alters"""
    import warnings
    with warnings.catch_warnings():
        warnings.simplefilter("ignore")
        yield


def decoy(path: str, kind: str):
    """Before a case's file is written to `path`, put a small DIFFERENT valid file there and load it through
    every library entry point that takes a path.  Each case is then a self-contained two-step history
    'load path, rewrite path, load path again': a reader that remembers what it saw under a path (memo keyed
    by file name — seed C15-2) answers the case with the decoy's content, and the replay of that single case
    reproduces it.  Failures of the decoy loads are ignored (they are not the case under test)."""
    import warnings
    with open(path, "wb") as fh:
        fh.write(_DECOY_ITP if kind == "itp" else _DECOY_GRO)
    with warnings.catch_warnings():
        warnings.simplefilter("ignore")
        if kind == "itp":
            from gaddlemaps.parsers import ItpFile, read_topology
            from gaddlemaps.components import MoleculeTop
            for fn in (read_topology, MoleculeTop, ItpFile):
                try:
                    fn(path)
                except Exception:   # noqa: BLE001
                    pass
        else:
            from gaddlemaps.parsers import GroFile
            from gaddlemaps.components import SystemGro, System
            _decoy_calls[0] += 1
            # (the velocity decoy on the first call — a replay is a first call — and every fourth one after it)
            for content in ((_DECOY_GRO, _DECOY_GRO_V) if _decoy_calls[0] % 4 == 1 else (_DECOY_GRO,)):
                with open(path, "wb") as fh:
                    fh.write(content)
                try:
                    g = GroFile(path)
                    g.readlines()
                    g.close()
                except Exception:   # noqa: BLE001
                    pass
                for fn in (SystemGro, System):
                    try:
                        fn(path)
                    except Exception:   # noqa: BLE001
                        pass
    try:
        os.unlink(path)
    except OSError:
        pass


# ----------------------------------------------------------------------------- source drift (change-directed budget)

FINGERPRINTS = VERIF / "fingerprints.json"


def ast_sha(path) -> str:
    """SHA-1 of a source file's AST with docstrings removed (comments / layout do not count)"""
    import ast
    tree = ast.parse(open(path, encoding="utf-8").read())
    for node in ast.walk(tree):
        if isinstance(node, (ast.FunctionDef, ast.AsyncFunctionDef, ast.ClassDef, ast.Module)):
            b = node.body
            if b and isinstance(b[0], ast.Expr) and isinstance(getattr(b[0], "value", None), ast.Constant) \
                    and isinstance(b[0].value.value, str):
                node.body = b[1:] or [ast.Pass()]
    return hashlib.sha1(ast.dump(tree, annotate_fields=False, include_attributes=False).encode()).hexdigest()


def package_files(repo) -> list[str]:
    root = Path(repo) / "gaddlemaps"
    return sorted(str(f.relative_to(repo)) for f in root.rglob("*.py"))


def source_drift(ctx: "Ctx"):
    """Compare the working tree's sources with fingerprints.json (the /repo state the checks were last validated
    against).  Files that differ mean the code under test CHANGED: the check then explores with a larger budget
    (x VERIF_DRIFT_SCALE, default 3, when a file anchored for this property changed; x2 when only other package files
    did).  Never a verdict: a harmless rewrite costs time, nothing else."""
    repo = os.environ.get("VERIF_REPO", "/repo")
    info = {"changed_anchored": [], "changed_other": [], "scale": 1.0}
    try:
        rec = json.loads(FINGERPRINTS.read_text())["files"]
        anchored = set()
        for l in open(VERIF / "properties.jsonl"):
            p = json.loads(l)
            if p["id"] == ctx.pid:
                anchored = set(p["anchors"]["files"])
        cur = package_files(repo)
        for f in sorted(set(cur) | set(rec)):
            path = Path(repo) / f
            try:
                sha = ast_sha(path) if path.exists() else "missing"
            except SyntaxError:
                sha = "syntax-error"
            if rec.get(f) != sha:
                (info["changed_anchored"] if f in anchored else info["changed_other"]).append(f)
        if info["changed_anchored"]:
            info["scale"] = float(os.environ.get("VERIF_DRIFT_SCALE", "3"))
        elif info["changed_other"]:
            info["scale"] = min(2.0, float(os.environ.get("VERIF_DRIFT_SCALE", "3")))
    except Exception as e:   # noqa: BLE001  (no fingerprints: behave as if nothing changed)
        info["error"] = repr(e)
    ctx.extra["source_drift"] = info
    if info["scale"] != 1.0:
        ctx.budget_scale *= info["scale"]
        print(f"[{ctx.pid}] source drift: {info['changed_anchored'] + info['changed_other']} differ from the validated "
              f"state; case budget x{info['scale']:g}")
    return info
