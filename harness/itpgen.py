"""harness.itpgen — shared by C15 and C16.

* an INDEPENDENT tokenizer of .itp text (the oracle's reading of a topology file; it shares no
  code with gaddlemaps and none with the Lean model),
* generators of .itp text (free-form files for C16, topologies with a known bond graph for C15),
* a small line-based delta-debugging shrinker.

Everything random comes from the `rng` passed in (ctx.rng).
"""
from __future__ import annotations

import os
from collections import OrderedDict

# ----------------------------------------------------------------------------- decoding / lines


def decode(data: bytes) -> str:
    """the text CPython's text layer hands to the library (ASCII, universal newlines)"""
    s = data.decode("ascii")
    return s.replace("\r\n", "\n").replace("\r", "\n")


def phys_lines(text: str) -> list[str]:
    out, i, n = [], 0, len(text)
    while i < n:
        j = text.find("\n", i)
        if j < 0:
            out.append(text[i:])
            break
        out.append(text[i:j + 1])
        i = j + 1
    return out


# ----------------------------------------------------------------------------- independent tokenizer

def header_name(line: str):
    """section name if the line is a `[ name ]` directive line, else None"""
    s = line.strip()
    if not s.startswith("[") or "]" not in s[1:]:
        return None
    i = line.index("[")
    j = line.rindex("]")
    return line[i + 1:j].strip()


def item(line: str):
    """None for a line carrying nothing; ('pp', text) for a preprocessor line (verbatim, without
    the terminator); ('ln', [tokens], comment) for a line with content tokens and/or a comment
    (first ';' separates, comment stripped)."""
    body = line[:-1] if line.endswith("\n") else line
    if not body.strip():
        return None
    if body.startswith("#"):
        return ("pp", body)
    k = body.find(";")
    content, comment = (body, "") if k < 0 else (body[:k], body[k + 1:])
    toks = content.split()
    com = comment.strip()
    if not toks and not com:
        return None
    return ("ln", toks, com)


def tokenize(text: str):
    """-> (header_lines verbatim, OrderedDict name -> [items]) with repeated section names gathered
    under the name's first appearance (the reading the property prescribes)."""
    header, secs, cur = [], OrderedDict(), None
    for line in phys_lines(text):
        name = header_name(line)
        if name is not None:
            cur = name
            secs.setdefault(name, [])
            continue
        if cur is None:
            header.append(line)
        else:
            it = item(line)
            if it is not None:
                secs[cur].append(it)
    return header, secs


def spec_topology(text: str):
    """independent reading of (name, [(atom name, resname, resid)], listed pairs as 0-based
    positions) from the tokenization; raises ValueError/KeyError/IndexError when the text is not
    a complete topology"""
    _, secs = tokenize(text)
    mt = [it for it in secs["moleculetype"] if it[0] == "ln" and it[1]]
    name = mt[0][1][0]
    atoms, pos = [], {}
    for it in secs["atoms"]:
        if it[0] == "ln" and it[1]:
            t = it[1]
            pos[int(t[0])] = len(atoms)
            atoms.append((t[4], t[3], int(t[2])))
    pairs = []
    for key in ("constraints", "bonds", "pairs"):
        for it in secs.get(key, []):
            if it[0] == "ln" and it[1]:
                pairs.append((pos[int(it[1][0])], pos[int(it[1][1])]))
    return name, atoms, pairs


# ----------------------------------------------------------------------------- union-find

def components(n: int, pairs) -> int:
    parent = list(range(n))

    def find(x):
        while parent[x] != x:
            parent[x] = parent[parent[x]]
            x = parent[x]
        return x
    for a, b in pairs:
        ra, rb = find(a), find(b)
        if ra != rb:
            parent[ra] = rb
    return len({find(i) for i in range(n)})


# ----------------------------------------------------------------------------- shrinking

def shrink_lines(text: str, still_fails, budget: int = 400) -> str:
    """ddmin over physical lines; `still_fails(text) -> bool`."""
    lines = phys_lines(text)
    n = 2
    calls = 0
    while len(lines) >= 2 and calls < budget:
        chunk = max(1, len(lines) // n)
        reduced = False
        for i in range(0, len(lines), chunk):
            cand = lines[:i] + lines[i + chunk:]
            calls += 1
            if cand and still_fails("".join(cand)):
                lines = cand
                n = max(n - 1, 2)
                reduced = True
                break
            if calls >= budget:
                break
        if not reduced:
            if chunk == 1:
                break
            n = min(len(lines), n * 2)
    return "".join(lines)


# ----------------------------------------------------------------------------- generators: free-form

SEC_NAMES = ["moleculetype", "atoms", "bonds", "constraints", "pairs", "angles", "dihedrals",
             "exclusions", "position_restraints", "settles", "virtual_sites2", "cmap", "type"]
WORDS = ["gb_27", "ga_15", "0.153", "1.25e+03", "C1", "OW", "SOL", "1", "2", "3", "17", "0.0", "-0.5",
         "gd_34", "POSRES", "HW1", "x", "#notpp", "ab", "1_0", "+4"]
COMMENTS = ["", " ", "   ", " a comment", "comment", " qtot 1.0", " one ; two", ";", ";; double",
            " # hash in comment", "#hash", " [ not a section", " tab\there ", "\ttab",
            # bracketed words INSIDE comments (units, references, a commented-out directive): not section headers
            " ai aj funct b0 [nm] kb [kJ mol-1 nm-2]", "[ dihedrals ]", " [ref]", " see [bonds] above", "[x]",
            # a comment that ends in a backslash (ASCII sketches of the molecule): NOT a line continuation
            "   \\", " C1 \\", "\\",
            # control characters that `str.splitlines` treats as line boundaries but a text FILE does not (form feed,
            # vertical tab, FS/GS/RS): what follows them is still comment (seed C15-9: read().splitlines())
            " page\x0c 1 2 1", "\x0b 2 3", " x\x1c 1 3 1", "\x1d 9 9", " y\x1e 4 5 1",
            # curly braces (LaTeX-style units, template placeholders): text, not `str.format` fields (seed C16-14)
            " b0 in nm (table {{1}})", " {0} {name}", " } {", "{"]
PP = ["#include \"forcefield.itp\"", "#ifdef POSRES", "#endif", "#define X 1", "#ifndef FLEX", "#else",
      "#", "# spaced"]


def _sp(rng, wide=False):
    r = rng.random()
    if r < 0.6:
        return " " * rng.randint(1, 6 if wide else 3)
    if r < 0.85:
        return "\t"
    return " \t "


def atom_line(rng, nr, resid=1, resname="MOL", name=None, short=False):
    name = name or f"A{nr}"
    toks = [str(nr), rng.choice(["C", "CH2", "opls_135", "P4"]), str(resid), resname, name, str(nr)]
    if not short:
        toks += [rng.choice(["0.000", "-0.18", "1", "1e-1", ".5"])]
        if rng.random() < 0.7:
            toks += [rng.choice(["12.011", "72", "1.008", "15.9994"])]
    lead = rng.choice(["", "", " ", "    ", "\t"])
    return lead + _sp(rng, True).join(toks)


def bond_line(rng, a, b):
    toks = [str(a), str(b)]
    r = rng.random()
    if r < 0.7:
        toks.append(str(rng.choice([1, 1, 2, 6])))
        if rng.random() < 0.6:
            toks += [rng.choice(["0.153", "gb_27", "0.47"]), rng.choice(["1250", "3.3e5", "gb"])][:rng.randint(1, 2)]
    lead = rng.choice(["", "", " ", "   ", "\t"])
    return lead + _sp(rng, True).join(toks)


def generic_line(rng):
    k = rng.randint(1, 6)
    return rng.choice(["", " ", "  "]) + _sp(rng).join(rng.choice(WORDS) for _ in range(k))


def decorate(rng, content: str, p_comment=0.45) -> str:
    """attach no / empty / blank / simple / multiple trailing comment(s)"""
    if rng.random() >= p_comment:
        return content + rng.choice(["", "", " ", "  \t"])
    sep = rng.choice(["", " ", "  ", "\t"])
    return content + sep + ";" + rng.choice(COMMENTS)


def filler(rng) -> str:
    """a line without content: blank, comment-only, preprocessor"""
    r = rng.random()
    if r < 0.25:
        return rng.choice(["", " ", "\t", "   "])
    if r < 0.65:
        return rng.choice(["", "", " ", "\t"]) + ";" + rng.choice(COMMENTS)
    return rng.choice(PP)


def section_body(rng, name: str, n: int, state: dict) -> list[str]:
    """n content lines valid for the section's kind, decorated, interleaved with fillers"""
    out = []
    for _ in range(n):
        while rng.random() < 0.3:
            out.append(filler(rng))
        if name == "atoms":
            state["nr"] = state.get("nr", 0) + rng.choice([1, 1, 1, 2, 5])
            state.setdefault("numbers", []).append(state["nr"])
            c = atom_line(rng, state["nr"], resid=1 + len(state["numbers"]) // 4,
                          short=rng.random() < 0.15)
        elif name in ("bonds", "constraints", "pairs"):
            nums = state.get("numbers") or [1, 2, 3]
            c = bond_line(rng, rng.choice(nums), rng.choice(nums))
        elif name in "moleculetype":       # mirrors the substring dispatch of the library
            c = rng.choice(["MOL", "SDS", "BF4", "W"]) + _sp(rng) + str(rng.randint(1, 3))
        else:
            c = generic_line(rng)
        out.append(decorate(rng, c))
    while rng.random() < 0.3:
        out.append(filler(rng))
    return out


def header_line(rng, name: str) -> str:
    r = rng.random()
    if r < 0.5:
        s = f"[ {name} ]"
    elif r < 0.7:
        s = f"[{name}]"
    elif r < 0.85:
        s = f"  [  {name}\t]  "
    else:
        s = f"[ {name} ] ; {rng.choice(['trailing', 'nr type', 'x'])}"
    return s


def gen_itp_text(rng, big=False) -> dict:
    """free-form .itp: header text, sections in any order, repeated names, all line kinds.
    Returns {'data': str, 'features': [...]}"""
    feats = []
    lines = []
    if rng.random() < 0.6:
        for _ in range(rng.randint(1, 4)):
            lines.append(rng.choice([";", "; topology made by hand", "", ";#include \"ff.itp\"",
                                     "#define FLEXIBLE", "free header text", " ; indented"]))
        feats.append("header-text")
    state = {}
    nsec = rng.randint(1, 10 if big else 6)
    names = []
    # a plausible skeleton first so atoms exist before bonds refer to them, then anything
    pool = ["moleculetype", "atoms"] if rng.random() < 0.7 else []
    for i in range(nsec):
        if pool:
            name = pool.pop(0)
        else:
            name = rng.choice(SEC_NAMES[1:] if "moleculetype" in names else SEC_NAMES)
            if names and rng.random() < 0.3:
                name = rng.choice(names)            # repeated section name
        if name == "moleculetype" and "moleculetype" in names:
            name = "dihedrals"
        if name in names:
            feats.append("repeated-section")
        if name not in ("moleculetype", "atoms") and rng.random() < 0.12:
            # a directive spelled with capitals ("[ Bonds ]"): for this library simply ANOTHER section name; it must
            # come back from a rewrite under exactly that spelling (seed C16-6: name lower-cased on output)
            name = rng.choice([name.capitalize(), name.upper(), name[:1] + name[1:].capitalize()])
            feats.append("capitalised-section-name")
        names.append(name)
        lines.append(header_line(rng, name))
        lines += section_body(rng, name.lower(), rng.randint(0, 40 if big else 5), state)
    text = "\n".join(lines)
    if rng.random() < 0.8:
        text += "\n"
    else:
        feats.append("no-final-newline")
    if rng.random() < 0.1:
        text = text.replace("\n", "\r\n")
        feats.append("crlf")
    return {"data": text, "features": sorted(set(feats))}


def features_of(text: str) -> list[str]:
    """input-class labels read off the text (used for counters and failure keys)"""
    f = set()
    names = []
    for line in phys_lines(text):
        n = header_name(line)
        if n is not None:
            if n in names:
                f.add("repeated-section")
            names.append(n)
            continue
        if not names:
            continue
        body = line.rstrip("\n")
        k = body.find(";")
        if body.startswith("#"):
            f.add("preprocessor")
        elif k >= 0:
            content, comment = body[:k], body[k + 1:]
            if k > 0 and not comment.strip():
                f.add("blank-trailing-comment")
            if comment.strip().startswith("#"):
                f.add("hash-comment")
            if ";" in comment:
                f.add("multiple-comments")
            if not content.strip() and comment.strip():
                f.add("comment-only")
        elif not body.strip():
            f.add("blank-line")
    if text and not text.endswith("\n"):
        f.add("no-final-newline")
    return sorted(f)


# ----------------------------------------------------------------------------- generators: topologies

def gen_graph(rng, n: int, cls: str):
    """edge list on 0..n-1 of the given class"""
    edges = []
    if cls == "chain":
        edges = [(i, i + 1) for i in range(n - 1)]
    elif cls == "chain-shuffled":
        perm = list(range(n))
        rng.shuffle(perm)
        edges = [(perm[i], perm[i + 1]) for i in range(n - 1)]
    elif cls == "tree":
        edges = [(rng.randrange(i), i) for i in range(1, n)]
    elif cls == "deep-tree":
        edges = [(max(0, i - 1 - (rng.randrange(3) if rng.random() < 0.1 else 0)), i) for i in range(1, n)]
    elif cls == "star":
        edges = [(0, i) for i in range(1, n)]
    elif cls == "forest":
        k = rng.randint(2, 6)
        edges = [(rng.randrange(i), i) for i in range(1, n)]
        rng.shuffle(edges)                 # drop k-1 tree edges: k trees
        edges = edges[: max(0, len(edges) - (k - 1))]
    elif cls == "cyclic":
        edges = [(rng.randrange(i), i) for i in range(1, n)]
        for _ in range(max(1, n // 4)):
            a, b = rng.randrange(n), rng.randrange(n)
            edges.append((a, b))           # may be a self-loop or a duplicate: both legal input
    elif cls == "ring":
        edges = [(i, (i + 1) % n) for i in range(n)] if n > 1 else []
    elif cls == "isolated-last":
        edges = [(rng.randrange(i), i) for i in range(1, n - 1)]
    elif cls == "isolated-first":
        edges = [(rng.randrange(1, i) if i > 1 else 1, i) for i in range(2, n)]
    elif cls == "empty":
        edges = []
    else:
        raise ValueError(cls)
    edges = [(a, b) if rng.random() < 0.5 else (b, a) for a, b in edges]
    rng.shuffle(edges)
    return edges


GRAPH_CLASSES = ["chain", "chain-shuffled", "tree", "deep-tree", "star", "forest", "cyclic", "ring",
                 "isolated-last", "isolated-first", "empty"]


def gen_topology(rng, n: int, cls: str, noise: float = 0.25) -> dict:
    """a complete .itp text with n atoms, gapped increasing numbering, the graph's edges spread
    over bonds/constraints/pairs (several occurrences of a section possible), non-bond sections
    (angles…) that must NOT contribute, comments / blank / preprocessor lines, varied spacing.
    Returns {'data', 'n', 'cls', 'numbers', 'edges'}."""
    numbers, nr = [], 0
    gap = rng.random() < 0.7
    for _ in range(n):
        nr += rng.choice([1, 1, 1, 2, 3, 7]) if gap else 1
        numbers.append(nr)
    # "arbitrary" atom numbers need not increase down the file: with probability 0.3 the SAME set of numbers is
    # dealt to the atoms in another order — a local swap (1,3,2,4: endpoints and count look consecutive), a
    # reversal or a full shuffle (seed C15-3: consecutive numbering inferred from the first and last number)
    order_kind = rng.random()
    if n >= 4 and order_kind < 0.12:
        i = rng.randrange(1, n - 2)
        numbers[i], numbers[i + 1] = numbers[i + 1], numbers[i]
    elif n >= 2 and order_kind < 0.2:
        numbers.reverse()
    elif n >= 2 and order_kind < 0.3:
        rng.shuffle(numbers)
    edges = gen_graph(rng, n, cls)
    molname = rng.choice(["MOL", "CHAIN", "POLY", "X1"])
    resname = rng.choice(["MOL", "RES", "LIG"])
    L = []

    def noise_lines():
        while rng.random() < noise:
            L.append(filler(rng))

    if rng.random() < 0.5:
        L.append("; generated topology")
    L.append(header_line(rng, "moleculetype"))
    noise_lines()
    L.append(decorate(rng, molname + _sp(rng) + str(rng.randint(1, 3)), 0.3))
    noise_lines()
    L.append(header_line(rng, "atoms"))
    for i, num in enumerate(numbers):
        if noise:
            noise_lines()
        resid = 1 + i // rng.choice([3, 4, 50])
        L.append(decorate(rng, atom_line(rng, num, resid=resid, resname=resname, name=f"C{i % 1000}"),
                          0.3 if noise else 0.0))
    noise_lines()
    # distribute the edges over sections; sections may occur several times and in any order
    plan = []
    secs = ["bonds", "constraints", "pairs"]
    nchunks = rng.randint(1, 5)
    cuts = sorted(rng.randrange(len(edges) + 1) for _ in range(nchunks - 1))
    chunks, prev = [], 0
    for c in cuts + [len(edges)]:
        chunks.append(edges[prev:c])
        prev = c
    for ch in chunks:
        plan.append((rng.choice(secs), ch))
    decoys = ["angles", "dihedrals", "exclusions"]
    for _ in range(rng.randint(0, 2)):
        plan.insert(rng.randrange(len(plan) + 1), (rng.choice(decoys), None))
    for name, ch in plan:
        L.append(header_line(rng, name))
        if ch is None:
            for _ in range(rng.randint(0, 4)):
                a, b, c = (rng.choice(numbers) for _ in range(3))
                L.append(decorate(rng, f"{a} {b} {c} 1", 0.3))
            continue
        for a, b in ch:
            if noise:
                noise_lines()
            L.append(decorate(rng, bond_line(rng, numbers[a], numbers[b]), 0.3 if noise else 0.0))
        noise_lines()
    text = "\n".join(L) + ("\n" if rng.random() < 0.9 else "")
    return {"data": text, "n": n, "cls": cls, "numbers": numbers, "edges": [list(e) for e in edges]}


def shipped_itps(repo: str) -> list[str]:
    out = []
    for root, _, files in os.walk(repo):
        if ".git" in root:
            continue
        for f in files:
            if f.endswith(".itp"):
                out.append(os.path.relpath(os.path.join(root, f), repo))
    return sorted(out)
