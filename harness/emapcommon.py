"""harness.emapcommon — generators, implementation runner, oracles and model comparison shared by
C01, C02, C03 (ExchangeMap numeric laws).

case = {"ref": {"pos": [[x,y,z]…], "bonds": [[i,j]…]}, "tgt": [[x,y,z]…], "s": float,
        "mode": "same" | "rigid" | "deform" | "local", "cls": str, "seed": int,
        "axis": [3], "theta": float, "t": [3]            (rigid)
        "newpos": [[x,y,z]…]                              (deform)
        "moved": k, "delta": [3]                          (local)}
"""
from __future__ import annotations

import math

import numpy as np
from .common import quiet as _quiet

from .common import fbits, unfbits, v3, vlist, ilist, allclose
from .molfiles import make_molecule, random_tree, neighbours

TOL = 1e-9


# ------------------------------------------------------------------------------ generators

def _rand_dir(rng):
    while True:
        d = [rng.gauss(0, 1) for _ in range(3)]
        n = math.sqrt(sum(c * c for c in d))
        if n > 1e-3:
            return [c / n for c in d]


def gen_ref(rng, cls=None):
    """returns (pos, bonds, cls)"""
    cls = cls or rng.choice(["generic-tree", "generic-tree", "generic-cyclic", "collinear-chain",
                             "axis-chain", "tilted-axis-chain", "partly-collinear", "nearly-collinear",
                             "lattice", "two-atom", "one-atom"])
    if cls == "one-atom":
        return [[rng.uniform(-2, 2) for _ in range(3)]], [], cls
    if cls == "two-atom":
        p0 = [rng.uniform(-2, 2) for _ in range(3)]
        d = _rand_dir(rng)
        L = rng.uniform(0.1, 0.5)
        return [p0, [p0[k] + L * d[k] for k in range(3)]], [(0, 1)], cls
    n = rng.randint(3, 12) if rng.random() < 0.8 else rng.randint(13, 40)
    if cls in ("collinear-chain", "axis-chain", "tilted-axis-chain"):
        n = rng.randint(3, 8)
        if cls == "axis-chain":
            d = [0, 0, 0]
            d[rng.randrange(3)] = rng.choice([-1, 1])
        elif cls == "tilted-axis-chain":
            # a line tilted off a coordinate axis by 2^-k (exactly representable, so the chain stays
            # exactly collinear): exercises the x/y-vs-z split of the collinear fallback near its boundary
            d = [0.0, 0.0, 0.0]
            ax = rng.randrange(3)
            d[ax] = float(rng.choice([-1, 1]))
            d[(ax + rng.choice([1, 2])) % 3] = rng.choice([-1, 1]) * 2.0 ** -rng.randint(3, 40)
        else:
            d = rng.choice([(1, 1, 0), (1, 0, 1), (0, 1, 1), (1, 1, 1), (1, -1, 0), (-1, 1, 1),
                            tuple(rng.randint(-4, 4) for _ in range(3))])
            if not any(d):
                d = (1, 2, 3)
        p0 = [rng.randint(-4, 4) for _ in range(3)]
        sc = 2.0 ** rng.randint(-4, 0)
        order = list(range(n))
        mult = sorted(rng.sample(range(-8, 9), n))
        rng.shuffle(order)   # atom numbering along the line is arbitrary
        pos = [None] * n
        for rank, atom in enumerate(order):
            pos[atom] = [(p0[k] + mult[rank] * d[k]) * sc for k in range(3)]
        bonds = [(order[r], order[r + 1]) for r in range(n - 1)]
        return pos, bonds, cls
    if cls == "lattice":
        pts = set()
        while len(pts) < n:
            pts.add(tuple(rng.randint(-3, 3) for _ in range(3)))
        pos = [[0.25 * c for c in p] for p in pts]
        rng.shuffle(pos)
        bonds = random_tree(rng, n)
        return pos, bonds, cls
    pos = [[rng.uniform(-1, 1) for _ in range(3)] for _ in range(n)]
    bonds = random_tree(rng, n)
    if cls == "generic-cyclic":
        for _ in range(rng.randint(1, 3)):
            i, j = rng.sample(range(n), 2)
            if (i, j) not in bonds and (j, i) not in bonds:
                bonds.append((i, j))
    if cls == "nearly-collinear":
        # one anchor bent off a straight line by a tiny angle 10^-U(1.5,4.5) rad (NOT collinear for the code:
        # sin(angle) > 1e-6): the map must still be equivariant and local there
        nb = neighbours(n, bonds)
        anchors = [a for a in range(n) if len(nb[a]) >= 2]
        a = rng.choice(anchors)
        n1, n2 = sorted(nb[a])[:2]
        d = _rand_dir(rng)
        e = _rand_dir(rng)
        ang = 10 ** -rng.uniform(1.5, 4.5)
        base = pos[a]
        L1, L2 = rng.uniform(0.1, 0.4), rng.uniform(0.1, 0.4)
        sg = rng.choice([-1, 1])
        pos[n2] = [base[k] + L2 * d[k] for k in range(3)]
        pos[n1] = [base[k] + sg * L1 * (d[k] + ang * e[k]) for k in range(3)]
    if cls == "partly-collinear":
        # make one anchor exactly collinear with its two lowest-numbered neighbours
        nb = neighbours(n, bonds)
        anchors = [a for a in range(n) if len(nb[a]) >= 2]
        a = rng.choice(anchors)
        n1, n2 = sorted(nb[a])[:2]
        base = [float(rng.randint(-2, 2)) for _ in range(3)]
        d = [float(rng.randint(-2, 2)) for _ in range(3)]
        if not any(d):
            d = [1.0, 0.0, 0.0]
        pos[a] = base
        pos[n1] = [base[k] + rng.choice([-2, -1, 1, 2, 3]) * d[k] for k in range(3)]
        m2 = rng.choice([-3, -2, -1, 1, 2])
        pos[n2] = [base[k] + m2 * d[k] for k in range(3)]
        if pos[n1] == pos[n2]:
            pos[n2] = [base[k] + (m2 + 5) * d[k] for k in range(3)]
    return pos, bonds, cls


def gen_tgt(rng, refpos, cls):
    m = rng.randint(1, 12) if rng.random() < 0.8 else rng.randint(13, 60)
    out = []
    for _ in range(m):
        r = rng.random()
        if r < 0.1:
            out.append(list(rng.choice(refpos)))              # exactly on a reference atom
        elif r < 0.2 and len(refpos) >= 2:
            # almost on the bisecting plane of two reference atoms: the distances differ by 10^-6.5 … 10^-10
            # (far above rounding, far below any "tidy" tolerance), the closer atom being either one — the
            # anchor must still be the strictly closest one (seed C01-3: distances rounded before sorting)
            ia, ib = rng.sample(range(len(refpos)), 2)
            A, B = refpos[ia], refpos[ib]
            u = [B[k] - A[k] for k in range(3)]
            L = math.sqrt(sum(c * c for c in u))
            if L < 1e-9:
                out.append(list(A))
                continue
            u = [c / L for c in u]
            w = _rand_dir(rng)
            dot = sum(w[k] * u[k] for k in range(3))
            w = [w[k] - dot * u[k] for k in range(3)]
            h = rng.uniform(0.0, 0.3)
            eps = rng.choice([-1, 1]) * 10 ** -rng.uniform(6.5, 10)
            out.append([(A[k] + B[k]) / 2 + h * w[k] + eps * u[k] for k in range(3)])
        elif r < 0.25 and cls == "lattice":
            out.append([0.25 * rng.randint(-3, 3) + 0.125 for _ in range(3)])   # distance ties
        else:
            c = rng.choice(refpos)
            out.append([c[k] + rng.gauss(0, 0.3) for k in range(3)])
    return out


def gen_scale(rng):
    # 0.0 is a scale factor like any other (every mapped atom ON its anchor); seed C03-5: `scale or default`
    return rng.choice([1.0, 0.5, 2.0, 1e-3, 0.0, rng.uniform(1e-3, 2.0), rng.uniform(0.05, 2.0)])


def gen_rigid(rng):
    r = rng.random()
    if r < 0.3:   # exact quarter turns about a coordinate axis
        axis = [0.0, 0.0, 0.0]
        axis[rng.randrange(3)] = 1.0
        theta = math.pi / 2 * rng.randint(1, 3)
    else:
        axis = _rand_dir(rng)
        theta = rng.uniform(-math.pi, math.pi)
    t = [rng.uniform(-50, 50) for _ in range(3)] if rng.random() < 0.8 else [0.0, 0.0, 0.0]
    return axis, theta, t


# ------------------------------------------------------------------------------ implementation runner

class RandRecorder:
    """wrap np.random.rand so the draws made by ExchangeMap for 1-/2-atom references are recorded"""

    def __init__(self):
        self.draws = []

    def __enter__(self):
        self._orig = np.random.rand
        rec = self

        def rand(*shape):
            out = rec._orig(*shape)
            rec.draws.append(np.array(out, dtype=float).reshape(-1).tolist())
            return out
        np.random.rand = rand
        return self

    def __exit__(self, *a):
        np.random.rand = self._orig


def gro_atoms_of(mol):
    """the AtomGro objects of a molecule, in order"""
    return [a for res in mol.residues for a in res]


def anchors_of(n, bonds):
    nb = neighbours(n, bonds)
    if n <= 2:
        return [0], nb
    return [a for a in range(n) if len(nb[a]) >= 2], nb


def closest_anchor(refpos, anchors, p):
    best = None
    for a in anchors:
        d = float(np.linalg.norm(np.array(p) - np.array(refpos[a])))
        if best is None or (d, a) < best:
            best = (d, a)
    return best[1]


def rotation(axis, theta):
    from gaddlemaps._auxilliary import rotation_matrix
    return rotation_matrix(np.array(axis, dtype=float), theta)


def arg_positions(case):
    pos = np.array(case["ref"]["pos"], dtype=float)
    mode = case["mode"]
    if mode == "same":
        return pos.copy()
    if mode == "rigid":
        R = rotation(case["axis"], case["theta"])
        if case.get("to_origin"):
            # the motion that brings atom 0 EXACTLY to the origin (what move_to([0,0,0]) does for a bead)
            P = pos @ R.T
            return P - P[0]
        return pos @ R.T + np.array(case["t"], dtype=float)
    if mode == "deform":
        return np.array(case["newpos"], dtype=float)
    if mode == "local":
        new = np.array(case["newpos"], dtype=float)
        return new
    raise ValueError(mode)


def run_impl(ctx, case):
    """build the real map and apply it; returns dict with equiv, out0 (map applied to the
    construction configuration), out (map applied to the case's argument), draws"""
    from gaddlemaps import ExchangeMap
    refpos = case["ref"]["pos"]
    bonds = [tuple(b) for b in case["ref"]["bonds"]]
    n = len(refpos)
    # "late bond": one bond of the reference (a cycle-closing one, so the molecule loads connected without it)
    # is NOT in the topology file; it is added with AtomTop.connect after the molecule has been loaded AND after a
    # throw-away map has been built from it (so that every per-atom derived datum — e.g. a cached sorted bond
    # list, seed C03-6 — has been computed for the old bond sets).  From then on the frame neighbours are the
    # two lowest-numbered atoms of the CURRENT bond sets.
    late = None
    if case.get("latebond", case.get("seed", 0) % 5 == 0) and n >= 3:
        und = sorted({tuple(sorted(b)) for b in bonds})
        for cand in sorted(und, key=lambda b: (b[0], -b[1])):
            rest = [b for b in und if b != cand]
            seen, stack = {0}, [0]
            adj = neighbours(n, rest)
            while stack:
                for j in adj[stack.pop()]:
                    if j not in seen:
                        seen.add(j)
                        stack.append(j)
            if len(seen) == n and all(len(adj[a]) >= 1 for a in range(n)):
                late = cand
                break
    file_bonds = [b for b in bonds if late is None or tuple(sorted(b)) != late]
    # (one case in five: every atom of the reference residue but the first carries the SAME name — hydrogens written HC HC HC,
    # polymer beads all EO: atoms are what their index says — seed C03-13: `molecule[i]` answered by name inside the residue)
    rnames = [f"C{k}" for k in range(n)] if case.get("seed", 0) % 5 != 2 else ["C0"] + ["CX"] * (n - 1)
    ref = make_molecule(ctx.scratch, "REF", rnames, refpos, file_bonds)
    if late is not None:
        ctx.count("topology:bond-added-after-first-use")
        try:
            with _quiet():
                throwaway_t = make_molecule(ctx.scratch, "REF", ["A0"], [list(refpos[0])], [])
                ExchangeMap(ref, throwaway_t, 1.0)(ref.copy())
        except Exception:   # noqa: BLE001
            pass
        a, b = late if case.get("seed", 0) % 2 == 0 else late[::-1]
        ref.molecule_top[a].connect(ref.molecule_top[b])
    m = len(case["tgt"])
    tgt = make_molecule(ctx.scratch, "REF", [f"A{k}" for k in range(m)], case["tgt"],
                        [(k, k + 1) for k in range(m - 1)])
    if case.get("tgt_dtype"):
        ctx.count("target-dtype:" + case["tgt_dtype"])
        for a, q in zip(gro_atoms_of(tgt), case["tgt"]):
            a.position = np.array(q, dtype=case["tgt_dtype"])
    ref_before = ref.atoms_positions.copy()
    tgt_before = tgt.atoms_positions.copy()
    np.random.seed(case.get("seed", 0))
    ident = case.get("ident", "fresh")
    with RandRecorder() as rec, _quiet():
        a0 = ref.copy()          # the construction configuration, as an independent object
        emap = ExchangeMap(ref, tgt, case["s"])
        nb = len(rec.draws)
        # the molecules the map was built from are changed IN PLACE before the map is used for the first time:
        # the projections are fixed at construction ("p the atom's position at construction"), so nothing may
        # change (seed C01-4: construction deferred to the first use reads the moved molecules)
        pre = case.get("premut") or ("before-first-call" if (case.get("seed", 0) // 2) % 3 == 0 else "none")
        ctx.count("premut:" + pre)
        if pre == "before-first-call":
            tgt.atoms_positions = tgt.atoms_positions[::-1] * 0.73 + np.array([0.9, -1.1, 0.4])
            ref.atoms_positions = ref.atoms_positions[::-1] * 1.21 + np.array([-0.6, 0.8, 1.3])
            ref_before = ref.atoms_positions.copy()
            tgt_before = tgt.atoms_positions.copy()
        res0 = emap(a0)          # kept alive: a later call must not change what it returned
        out0 = res0.atoms_positions.copy()
        # history: the map is also used on an unrelated conformation of the species before the call
        # under test (what a system extrapolation does for every molecule)
        # — or not: a shortcut keyed on "same object as last time" is only visible when NO other molecule is
        # mapped in between (seed C03-1), one keyed on "is the construction object" only when one is (C01-2)
        hist = case.get("hist") or ("other-between" if case.get("seed", 0) % 2 == 0 else "none-between")
        ctx.count("hist:" + hist)
        if hist == "other-between":
            other = ref.copy()
            other.atoms_positions = other.atoms_positions[::-1] * 1.37 + np.array([1.7, -0.3, 0.9])
            try:
                emap(other)
            except Exception:   # noqa: BLE001  (a degenerate scrambled conformation is not the case under test)
                pass
        n0 = len(rec.draws)
        if ident == "construction-object":
            # the very object the map was built from, moved/deformed IN PLACE after construction and after
            # the map has been used on another molecule
            arg = ref
            ref_before = arg_positions(case).copy()
        elif ident == "reused-object":
            # one Molecule object passed to consecutive calls and changed in place in between
            arg = a0
        else:
            arg = ref.copy()
        if ident != "fresh" and (case.get("seed", 0) // 7) % 2 == 0:
            # moved IN PLACE in the strict sense: the new coordinates are written INTO the coordinate arrays the atoms
            # already hold (`atom.position[:] = …`, what `arr[:] = arr @ R.T + t` does when the atoms hold row views of
            # `arr`): the map reads where the atoms are now (seed C02-13: the stacked positions cached on the residue
            # while every atom still holds the same array OBJECT)
            ctx.count("argument-moved-in-place-through-the-atoms-arrays")
            for a_, q_ in zip(gro_atoms_of(arg), arg_positions(case)):
                a_.position[:] = q_
        else:
            arg.atoms_positions = arg_positions(case)
        arg_before = arg.atoms_positions.copy()
        if case.get("seed", 0) % 3 == 1:
            # the public attribute is assigned again (same value) between two calls: the projections were fixed at
            # construction, nothing may change (seed C03-7: a setter that re-projects against whatever frames the
            # map holds at that moment)
            ctx.count("scale_factor-reassigned-between-calls")
            emap.scale_factor = case["s"]
        res = emap(arg)
        out = res.atoms_positions.copy()
    eq = emap.equivalences   # {ref index: [target indices]}
    equiv = [None] * m
    for a, ts in eq.items():
        for t in ts:
            equiv[t] = a
    earlier_intact = bool(res0.atoms_positions.tobytes() == out0.tobytes())
    return {"equiv": equiv, "out0": out0, "out": out, "argpos": arg_before, "earlier_intact": earlier_intact,
            "draws_build": rec.draws[:nb], "draws_call0": rec.draws[nb:n0], "draws_call": rec.draws[n0:],
            "inputs_unchanged": bool(np.array_equal(ref_before, ref.atoms_positions)
                                     and np.array_equal(tgt_before, tgt.atoms_positions)
                                     and np.array_equal(arg_before, arg.atoms_positions)),
            "names_ok": [a.name for a in res] == [a.name for a in tgt]}


def safe_run(ctx, case):
    """run_impl, but an exception raised by the library is an oracle failure (the properties quantify
    over inputs for which the map must exist), not an internal error of the check"""
    try:
        return run_impl(ctx, case)
    except Exception as e:   # noqa: BLE001
        import traceback
        tb = traceback.extract_tb(e.__traceback__)
        where = next((f"{fr.filename.split('/')[-1]}:{fr.name}" for fr in reversed(tb) if "gaddlemaps" in fr.filename), "harness")
        if where == "harness":
            raise
        ctx.case(case, nontrivial=False)
        if ctx.pid == "C01" and not (0.0 < float(case.get("s", 1.0)) <= 2.0) and where.endswith(":__init__"):
            # C01 quantifies over scale factors in (0, 2]: a constructor that REFUSES s = 0 does not contradict it
            # (benign change C01-3).  Where the map is built, the law is checked for s = 0 as for any other value.
            ctx.count("outside-quantifier:scale-factor-refused-by-the-constructor")
            return None
        ctx.oracle_fail(f"exchange_map:raises-{type(e).__name__}@{where}:{case.get('cls', '?')}", case, {"error": repr(e)})
        return None


def ask_model(ctx, case, impl, argpos, draws_call, out, what):
    refpos = case["ref"]["pos"]
    n = len(refpos)
    nb = neighbours(n, [tuple(b) for b in case["ref"]["bonds"]])
    toks = " ".join([
        vlist(refpos),
        " ".join([str(n)] + [ilist(sorted(s, reverse=True)) for s in nb]),   # unsorted on purpose
        vlist(impl["draws_build"]), vlist(case["tgt"]), fbits(case["s"]),
        vlist(argpos), vlist(draws_call)])
    scale = max(1.0, float(np.abs(out).max()) if np.isfinite(out).all() else 1.0)

    def cb(status, toks, case, impl=impl, out=out):
        if status != "ok":
            ctx.disagree(case, what + ": model returned error", impl["equiv"], toks)
            return
        k = int(toks[0])
        equiv = [int(t) for t in toks[1:1 + k]]
        rest = toks[1 + k:]
        mpos = [unfbits(t) for t in rest[1:]]
        if equiv != impl["equiv"]:
            ctx.disagree(case, what + ": equivalences", impl["equiv"], equiv)
        elif not allclose(mpos, out.flatten(), TOL * scale):
            ctx.disagree(case, what + ": mapped positions", out, mpos)
    ctx.model.ask("emap", toks, cb, case)


def cyl(p, o, axis):
    """(distance to o, coordinate along axis, distance from axis)"""
    v = np.array(p) - np.array(o)
    a = np.array(axis) / np.linalg.norm(axis)
    along = float(v @ a)
    return float(np.linalg.norm(v)), along, float(np.linalg.norm(v - along * a))


def collinear_anchor(pos, nb, a):
    """does calcule_base take the collinear fallback for anchor a (as the code tests it)?"""
    if len(nb[a]) < 2:      # not an anchor at all (an implementation that assigns one anyway is judged by the oracle)
        return False, np.array([1.0, 0.0, 0.0])
    n1, n2 = sorted(nb[a])[:2]
    d = np.array(pos[n2]) - np.array(pos[a])
    e1 = d / np.linalg.norm(d)
    u = np.array(pos[n1]) - np.array(pos[a])
    return bool(np.linalg.norm(np.cross(e1, u)) <= 1e-6 * np.linalg.norm(u)), e1
