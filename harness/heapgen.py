"""harness.heapgen — shared machinery of the heap-model checks (C18, C04):

  * generated species (bond graph, residues) written as real .itp/.gro files,
  * `World`: an environment of live gaddlemaps objects mirrored op by op into one `heapseq`
    request for the Lean heap model,
  * observation (snapshot) of every live object and the parser for the model's delta-encoded
    snapshots,
  * provenance classes used by the isolation oracle, array-memory disjointness.

All randomness comes from `random.Random` instances derived from `ctx.rng`.
"""
from __future__ import annotations

import itertools
import math
import os
import random
import warnings

import numpy as np

from .common import fbits, unfbits, hexs, unhexs

LETTERS = "ABCDEFGHJKLMNPQRSTUVWXYZ"


# ----------------------------------------------------------------------------- species / files

def gen_species(rng, tag, nmin, nmax, rmax=3, connected=True):
    """{'name', 'atoms': [(resnr, resname, atomname)], 'bonds': [(i, j)], 'sizes': [..]}"""
    n = rng.randint(nmin, nmax)
    nres = rng.randint(1, min(rmax, n))
    # contiguous residues
    cuts = sorted(rng.sample(range(1, n), nres - 1)) if nres > 1 else []
    sizes = [b - a for a, b in zip([0] + cuts, cuts + [n])]
    atoms = []
    k = 0
    # (one species in four: atom names that start with the symbols of DIFFERENT chemical elements, as all-atom topologies
    # have — a rotation turns the object about its GEOMETRIC centre whatever its atoms are called: seed C18-14)
    elements = rng.random() < 0.25
    for r, sz in enumerate(sizes):
        for _ in range(sz):
            atoms.append((r + 1, f"{tag}R{r}", (f"{'CNOHSPF'[(k * 3 + r) % 7]}{k}" if elements else f"{tag}{k}")))
            k += 1
    bonds = set()
    if connected:
        shape = rng.random()
        for i in range(1, n):
            if shape < 0.3:
                j = i - 1                       # chain
            elif shape < 0.45:
                j = 0                           # star
            else:
                j = rng.randrange(i)            # random tree
            bonds.add((j, i))
        for _ in range(rng.randint(0, 2)):      # extra edges (cycles)
            if n >= 3:
                a, b = rng.sample(range(n), 2)
                bonds.add((min(a, b), max(a, b)))
    else:
        for _ in range(rng.randint(0, n)):
            if n >= 2:
                a, b = rng.sample(range(n), 2)
                bonds.add((min(a, b), max(a, b)))
    return {"name": f"SP{tag}", "atoms": atoms, "bonds": sorted(bonds), "sizes": sizes}


def write_itp(path, sp, bonds=None, name=None):
    with open(path, "w") as f:
        f.write("[ moleculetype ]\n; name nrexcl\n%s 1\n\n[ atoms ]\n" % (name or sp["name"]))
        for i, (rnr, res, an) in enumerate(sp["atoms"]):
            f.write("%d T %d %s %s %d 0.0 1.0\n" % (i + 1, rnr, res, an, i + 1))
        f.write("\n[ bonds ]\n")
        for a, b in (sp["bonds"] if bonds is None else bonds):
            f.write("%d %d 1\n" % (a + 1, b + 1))


def gro_line(resid, resname, name, atomid, xyz, vel=None):
    s = "%5d%-5s%5s%5d%8.3f%8.3f%8.3f" % (resid, resname, name, atomid, xyz[0], xyz[1], xyz[2])
    if vel is not None:
        s += "%8.4f%8.4f%8.4f" % tuple(vel)
    return s


def write_gro(path, lines, title="generated"):
    with open(path, "w") as f:
        f.write(title + "\n%d\n" % len(lines))
        for l in lines:
            f.write(l + "\n")
        f.write("  10.00000  10.00000  10.00000\n")


def parse_back(line):
    """the atom data the library reads from a line written by `gro_line` (same slicing)"""
    vel = None
    if len(line) > 44:
        vel = [float(line[44:52]), float(line[52:60]), float(line[60:68])]
    return (int(line[:5]), line[5:10].strip(), line[10:15].strip(), int(line[15:20]),
            [float(line[20:28]), float(line[28:36]), float(line[36:44])], vel)


def coord(rng, stream):
    if stream == "exact":
        return rng.randint(-40, 40) / 8.0
    return round(rng.uniform(-4.0, 4.0), 3)


def vec(rng, stream):
    if stream == "exact":
        return [rng.randint(-40, 40) / 8.0 for _ in range(3)]
    return [rng.uniform(-4.0, 4.0) for _ in range(3)]


def velc(rng, stream):
    if stream == "exact":
        return [rng.randint(-32, 32) / 16.0 for _ in range(3)]
    return [rng.uniform(-2.0, 2.0) for _ in range(3)]


def molecule_lines(rng, sp, stream, resid0, atomid0, with_vel, centre=None, spread=1.0):
    """gro lines of one molecule of the species; residue numbers resid0, resid0+1, …"""
    lines = []
    c = centre or [0.0, 0.0, 0.0]
    for i, (rnr, res, an) in enumerate(sp["atoms"]):
        if stream == "exact":
            xyz = [c[k] + rng.randint(-8, 8) / 8.0 for k in range(3)]
        else:
            xyz = [round(c[k] + rng.uniform(-spread, spread), 3) for k in range(3)]
        v = None
        if with_vel:
            v = [rng.randint(-32, 32) / 16.0 for _ in range(3)] if stream == "exact" else \
                [round(rng.uniform(-2, 2), 4) for _ in range(3)]
        lines.append(gro_line(resid0 + rnr - 1, res, an, atomid0 + i, xyz, v))
    return lines


QUARTER = None


def quarter_turns():
    """the 24 proper rotations that permute the axes (entries 0, ±1)"""
    global QUARTER
    if QUARTER is None:
        out = []
        for perm in itertools.permutations(range(3)):
            for signs in itertools.product([1.0, -1.0], repeat=3):
                m = np.zeros((3, 3))
                for r in range(3):
                    m[r, perm[r]] = signs[r]
                if round(np.linalg.det(m)) == 1:
                    out.append(m)
        QUARTER = out
    return QUARTER


def rotation(rng, stream):
    if stream == "exact":
        return quarter_turns()[rng.randrange(24)].copy()
    from gaddlemaps._auxilliary import rotation_matrix
    axis = np.array([rng.gauss(0, 1) for _ in range(3)])
    if not axis.any():
        axis = np.array([0.0, 0.0, 1.0])
    return np.array(rotation_matrix(axis, rng.uniform(-math.pi, math.pi)))


# ----------------------------------------------------------------------------- observation

def _gro_obs(ag):
    v = ag.velocity
    return (int(ag.resid), str(ag.resname), str(ag.name), int(ag.atomid),
            tuple(float(c) for c in ag.position), None if v is None else tuple(float(c) for c in v))


def _top_obs(at):
    return (str(at.name), str(at.resname), int(at.resid), int(at.index), tuple(sorted(int(b) for b in at.bonds)))


def kind_of(o):
    from gaddlemaps.components import Molecule, Residue, AtomGro, Atom
    if isinstance(o, Molecule):
        return "mol"
    if isinstance(o, Residue):
        return "res"
    if isinstance(o, AtomGro):
        return "agro"
    if isinstance(o, Atom):
        return "atom"
    return "other"


def gro_atoms(o):
    """the AtomGro objects of a handle, in iteration order (no `Atom` is constructed)"""
    k = kind_of(o)
    if k == "mol":
        return [ag for res in o.residues for ag in res]
    if k == "res":
        return [ag for ag in o]
    if k == "agro":
        return [o]
    if k == "atom":
        return [o.atom_gro]
    return []


def top_atoms(o):
    k = kind_of(o)
    if k == "mol":
        # read the attribute itself where it exists: going through the `molecule_top` property would TRIGGER whatever
        # that property does on first access (seed C18-10: deep_copy borrows the original's topology until the property
        # is first read — an observer that reads the property repairs the defect it should see)
        top = o.__dict__.get("_molecule_top")
        return list(top if top is not None else o.molecule_top)
    if k == "atom":
        return [o.atom_top]
    return []


def observe(o):
    """canonical observation of a handle: ('M', name, [(gro, top)…]) | ('R', [gro…]) |
    ('G', gro) | ('A', gro, top) | ('MR', name, [top…], [[gro…]…]) for a Molecule whose residues hold
    another number of atoms than its topology (after `remove_atom` on one of its residues)"""
    k = kind_of(o)
    if k == "mol":
        gs = gro_atoms(o)
        ts = top_atoms(o)
        mt = o.__dict__.get("_molecule_top")        # (not through the property: see top_atoms)
        mname = str((mt if mt is not None else o.molecule_top).name)
        if len(gs) != len(ts):
            return ("MR", mname, tuple(_top_obs(t) for t in ts),
                    tuple(tuple(_gro_obs(g) for g in res) for res in o.residues))
        return ("M", mname, tuple((_gro_obs(g), _top_obs(t)) for g, t in zip(gs, ts)))
    if k == "res":
        return ("R", tuple(_gro_obs(g) for g in o))
    if k == "agro":
        return ("G", _gro_obs(o))
    if k == "atom":
        return ("A", _gro_obs(o.atom_gro), _top_obs(o.atom_top))
    return ("X",)


def gro_part(ob):
    """the gro-side observables of an observation (coordinates, velocities, numbers, gro labels)"""
    if ob[0] == "M":
        return tuple(g for g, _ in ob[2])
    if ob[0] == "MR":
        return tuple(g for res in ob[3] for g in res)
    if ob[0] == "R":
        return ob[1]
    if ob[0] in ("G", "A"):
        return (ob[1],)
    return ()


def top_part(ob):
    if ob[0] == "M":
        return (ob[1],) + tuple(t for _, t in ob[2])
    if ob[0] == "MR":
        return (ob[1],) + tuple(ob[2])
    if ob[0] == "A":
        return (ob[2],)
    return ()


def bits_equal(a, b):
    """structural equality with floats compared by bit pattern (NaN-safe)"""
    if isinstance(a, float) and isinstance(b, float):
        return fbits(a) == fbits(b)
    if isinstance(a, tuple) and isinstance(b, tuple):
        return len(a) == len(b) and all(bits_equal(x, y) for x, y in zip(a, b))
    return type(a) == type(b) and a == b


def obs_close(a, b, tol):
    """model vs implementation: discrete parts exactly, floats with tolerance (tol=0: ==)"""
    if isinstance(a, float) and isinstance(b, float):
        if math.isnan(a) or math.isnan(b):
            return math.isnan(a) and math.isnan(b)
        if math.isinf(a) or math.isinf(b):
            return a == b
        return abs(a - b) <= tol * max(1.0, abs(a), abs(b))
    if isinstance(a, tuple) and isinstance(b, tuple):
        return len(a) == len(b) and all(obs_close(x, y, tol) for x, y in zip(a, b))
    return type(a) == type(b) and a == b


# ----------------------------------------------------------------------------- token codecs

def tok_gro(g):
    resid, resname, name, atomid, pos, vel = g
    s = f"{resid} {hexs(resname)} {hexs(name)} {atomid} {fbits(pos[0])} {fbits(pos[1])} {fbits(pos[2])}"
    if vel is None:
        return s + " 0"
    return s + f" 1 {fbits(vel[0])} {fbits(vel[1])} {fbits(vel[2])}"


def tok_v3(v):
    return " ".join(fbits(float(c)) for c in v)


class Cursor:
    def __init__(self, toks):
        self.t = toks
        self.i = 0

    def tok(self):
        x = self.t[self.i]
        self.i += 1
        return x

    def int(self):
        return int(self.tok())

    def str(self):
        return unhexs(self.tok())

    def flt(self):
        return unfbits(self.tok())

    def gro(self):
        resid = self.int()
        resname = self.str()
        name = self.str()
        atomid = self.int()
        pos = (self.flt(), self.flt(), self.flt())
        vel = None
        if self.int():
            vel = (self.flt(), self.flt(), self.flt())
        return (resid, resname, name, atomid, pos, vel)

    def top(self):
        name, resname, resid, index = self.str(), self.str(), self.int(), self.int()
        return (name, resname, resid, index, tuple(self.int() for _ in range(self.int())))

    def pyval(self):
        k = self.tok()
        if k == "int":
            return ("int", self.int())
        if k == "str":
            return ("str", self.str())
        if k == "vec":
            return ("vec", (self.flt(), self.flt(), self.flt()))
        if k == "none":
            return ("none",)
        if k == "nats":
            return ("nats", tuple(self.int() for _ in range(self.int())))
        if k == "bool":
            return ("bool", bool(self.int()))
        if k == "opaque":
            return ("opaque",)
        raise ValueError("bad pyval kind " + k)

    def obs(self):
        k = self.tok()
        if k == "M":
            name = self.str()
            n = self.int()
            return ("M", name, tuple((self.gro(), self.top()) for _ in range(n)))
        if k == "MR":
            name = self.str()
            tops = tuple(self.top() for _ in range(self.int()))
            return ("MR", name, tops, tuple(tuple(self.gro() for _ in range(self.int()))
                                            for _ in range(self.int())))
        if k == "R":
            n = self.int()
            return ("R", tuple(self.gro() for _ in range(n)))
        if k == "G":
            return ("G", self.gro())
        if k == "A":
            g = self.gro()
            return ("A", g, self.top())
        if k == "X":
            return ("X",)
        raise ValueError("bad observation kind " + k)

    def deltas(self, snap):
        n = self.int()
        for _ in range(n):
            i = self.int()
            ob = self.obs()
            if i < len(snap):
                snap[i] = ob
            elif i == len(snap):
                snap.append(ob)
            else:
                raise ValueError("delta index beyond snapshot")

    def pairs(self, tag):
        if self.tok() != tag:
            raise ValueError("expected " + tag)
        return [(self.int(), self.int()) for _ in range(self.int())]

    def nats(self, tag):
        if self.tok() != tag:
            raise ValueError("expected " + tag)
        return [self.int() for _ in range(self.int())]


EXC = {"OSError": "OSError", "IOError": "OSError", "FileNotFoundError": "OSError"}


def exc_name(e):
    n = type(e).__name__
    return EXC.get(n, n)


# ----------------------------------------------------------------------------- the mirrored world

class World:
    """live gaddlemaps objects + the op tokens that reproduce the same history in the model"""

    def __init__(self, ctx, stream):
        self.ctx = ctx
        self.stream = stream
        self.env = []          # python objects
        self.meta = []         # {'kind','g','t','parent','k','sys'}
        self.ops = []          # token strings, one per op
        self.status = []       # 'ok' | exception class
        self.snaps = []        # full observation list after each op
        self.extra = []        # per-op extras (e.g. table keys)
        self.desc = []         # human-readable op descriptions
        self._g = 0
        self._t = 0
        self.passed = []       # (array, bytes) handed to the library, must never change
        self.keep = []         # keep helper objects (System, Alignment) alive
        self.em = None
        self.unexpected = []   # exceptions that look like in-place mutation of inputs
        self.any_error = set() # op indexes where the CLASS of the exception is not compared with the model (both must fail)
        self._gparent = {}     # union-find over gro provenance classes (`a + b` of two AtomGro objects
                               # builds a Residue out of the operands themselves: the classes merge)

    # -- provenance classes
    def new_g(self):
        self._g += 1
        return self._g

    def new_t(self):
        self._t += 1
        return self._t

    def find(self, g):
        """representative of a gro provenance class"""
        while g in self._gparent:
            g = self._gparent[g]
        return g

    def union(self, a, b):
        a, b = self.find(a), self.find(b)
        if a != b:
            self._gparent[b] = a
        return a

    def ro(self, a):
        a = np.array(a, dtype=float)
        a.flags.writeable = False
        self.passed.append((a, a.tobytes()))
        return a

    def inputs_intact(self):
        return all(a.tobytes() == b for a, b in self.passed)

    def snapshot(self):
        new = [observe(o) for o in self.env]
        if self.snaps:                       # share unchanged observations (memory)
            old = self.snaps[-1]
            for i in range(min(len(old), len(new))):
                if bits_equal(old[i], new[i]):
                    new[i] = old[i]
        return new

    def record(self, toks, desc, status, extra=None):
        self.ops.append(toks)
        self.desc.append(desc)
        self.status.append(status)
        self.snaps.append(self.snapshot())
        self.extra.append(extra)

    def run(self, toks, desc, fn, meta=None):
        """execute fn() on the implementation; if it returns an object push it with `meta`"""
        status = "ok"
        ret = None
        try:
            with warnings.catch_warnings():
                warnings.simplefilter("ignore")
                ret = fn()
        except Exception as e:  # the model must predict the same class
            status = exc_name(e)
            if "read-only" in str(e):
                self.unexpected.append((desc, str(e)))
        if status == "ok" and meta is not None:
            self.env.append(ret)
            m = dict(meta)
            m["kind"] = kind_of(ret)
            self.meta.append(m)
        self.record(toks, desc, status)
        return status, ret

    # -- loading
    def load_tokens(self, mol):
        """`newmol` tokens from the observed state of a freshly loaded molecule"""
        tops = list(mol.molecule_top)
        t = [hexs(mol.molecule_top.name), str(len(tops))]
        for at in tops:
            b = sorted(int(x) for x in at.bonds)
            t += [hexs(at.name), hexs(at.resname), str(int(at.resid)), str(len(b))] + [str(x) for x in b]
        t.append(str(len(mol.residues)))
        for res in mol.residues:
            t.append(str(len(res)))
            for ag in res:
                t.append(tok_gro(_gro_obs(ag)))
        return "newmol " + " ".join(t)

    def add_loaded(self, mol, desc, sys=None):
        self.env.append(mol)
        self.meta.append({"kind": "mol", "g": self.new_g(), "t": self.new_t(), "parent": None, "k": None,
                          "sys": sys})
        self.record(self.load_tokens(mol), desc, "ok")
        return len(self.env) - 1

    def request(self):
        return f"{len(self.ops)} " + " ".join(self.ops)

    # -- array memory of coordinate data: (address -> provenance class)
    def memory_clash(self):
        seen = {}
        for o, m in zip(self.env, self.meta):
            for ag in gro_atoms(o):
                for arr in (ag.position, ag.velocity):
                    if isinstance(arr, np.ndarray):
                        addr = arr.__array_interface__["data"][0]
                        prev = seen.get(addr)
                        cls = self.find(m["g"])
                        if prev is not None and prev != cls:
                            return (prev, cls)
                        seen[addr] = cls
        return None


def residues_tokens(mol_lines_parsed, sizes):
    """tokens `<nres> {<nat> {<gro>}}` for atom data split into residues of the given sizes"""
    t = [str(len(sizes))]
    k = 0
    for sz in sizes:
        t.append(str(sz))
        for a in mol_lines_parsed[k:k + sz]:
            resid, resname, name, atomid, xyz, vel = a
            t.append(tok_gro((resid, resname, name, atomid, tuple(xyz), None if vel is None else tuple(vel))))
        k += sz
    return " ".join(t)


def compare_with_model(ctx, case, world, toks, tol, label, extra_cb=None, stop=None):
    """walk the model's response; report the first difference in outcome or snapshot"""
    cur = Cursor(toks)
    snap = []
    for k, (st, want) in enumerate(zip(world.status, world.snaps)):
        mst = cur.tok()
        if extra_cb is not None:
            extra_cb(k, cur, world, mst)
        cur.deltas(snap)
        if stop is not None and stop():
            return True
        if mst != st and not (k in world.any_error and st != "ok" and mst != "ok"):
            ctx.disagree(case, f"{label}: outcome of op {k} ({world.desc[k]})", st, mst)
            return False
        if len(snap) != len(want):
            ctx.disagree(case, f"{label}: number of live objects after op {k} ({world.desc[k]})",
                         len(want), len(snap))
            return False
        for i, (a, b) in enumerate(zip(want, snap)):
            if not obs_close(a, b, tol):
                ctx.disagree(case, f"{label}: object {i} after op {k} ({world.desc[k]})", a, b)
                return False
    return True
