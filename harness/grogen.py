"""harness.grogen — shared by C13 / C14: codecs for the Gro driver ops, generators of writer
sessions, a runner that drives the real `GroFile` (optionally snapshotting the file after every
`write` call), an exact (Fraction) evaluation of the property's numeric clauses.

A *session* is a JSON-serialisable list of ops
    ["c", title] | ["b3", [a,b,c]] | ["b9", [[3],[3],[3]]] | ["n", natoms] | ["f", w, d]
    | ["w", [resnum, resname, name, atomnum, x, y, z(, vx, vy, vz)]] | ["x"]
"""
from __future__ import annotations

import math
import os
import struct
import warnings
from fractions import Fraction

from .common import hexs, unhexs

def _default_text_encoding():
    """the encoding `open(path, 'w')` / `open(path)` use in THIS interpreter (GroFile opens its files in text
    mode without an `encoding=` argument): locale dependent, UTF-8 in UTF-8 mode"""
    import codecs
    with open(os.devnull, "w") as f:
        enc = f.encoding
    return codecs.lookup(enc).name


TEXT_ENCODING = _default_text_encoding()
# encodings for which the byte-list file model is exact: stateless, '\n' is the single byte 0x0A and never part
# of a multi-byte sequence, so `tell()` cookies are plain byte offsets and `readline` splits at byte 0x0A
BYTE_MODELLED_ENCODING = (TEXT_ENCODING in ("utf-8", "ascii") or TEXT_ENCODING.startswith("iso8859")
                          or TEXT_ENCODING.startswith("cp125"))


def text_bytes(s: str) -> bytes:
    """what the text layer writes to the file for `s`"""
    return s.encode(TEXT_ENCODING)


def encodable(s: str) -> bool:
    try:
        s.encode(TEXT_ENCODING)
        return True
    except UnicodeEncodeError:
        return False


BOUNDARY_NUMBERS = [0, 1, 9, 10, 99, 9999, 10000, 99998, 99999, 100000, 100001, 10 ** 5 - 1, 199998, 199999,
                    200000, 10 ** 6 - 1, 10 ** 6, 10 ** 6 + 1, 10 ** 7 - 1, 10 ** 7]
NAME_CHARS = "ABCDEFGHIJKLMNOPQRSTUVWXYZabcdefghijklmnopqrstuvwxyz0123456789+-*'#_.()[]"
NAME_CHARS_MODEL = NAME_CHARS  # '_' is fine in names (only numeric fields are 'unmodelled' with '_')
TITLE_CHARS = "".join(chr(c) for c in range(32, 127))

# ----------------------------------------------------------------------------- codecs


def dy(x: float) -> str:
    """finite double -> 'sign mantissa exponent' with value (-1)^s * m * 2^e"""
    x = float(x)
    if math.isnan(x) or math.isinf(x):
        raise ValueError("non-finite value cannot be sent as a dyadic")
    s = 1 if math.copysign(1.0, x) < 0 else 0
    n, d = abs(x).as_integer_ratio()
    return f"{s} {n} {-(d.bit_length() - 1)}"


def rec_tokens(r) -> str:
    out = [str(int(r[0])), hexs(r[1]), hexs(r[2]), str(int(r[3])), dy(r[4]), dy(r[5]), dy(r[6])]
    if len(r) == 10:
        out += ["1", dy(r[7]), dy(r[8]), dy(r[9])]
    else:
        out.append("0")
    return " ".join(out)


def op_tokens(op) -> str:
    k = op[0]
    if k == "c":
        return "c " + hexs(text_bytes(op[1]))      # the model works on the ENCODED title (byte offsets)
    if k == "b3":
        return "b3 " + " ".join(dy(v) for v in op[1])
    if k == "b9":
        return "b9 " + " ".join(dy(v) for row in op[1] for v in row)
    if k == "n":
        return f"n {int(op[1])}"
    if k == "f":
        return f"f {int(op[1])} {int(op[2])}"
    if k == "w":
        return "w " + rec_tokens(op[1])
    if k == "x":
        return "x"
    raise ValueError(f"unknown op {op!r}")


def ops_tokens(ops) -> str:
    return " ".join([str(len(ops))] + [op_tokens(o) for o in ops])


class Toks:
    """sequential reader over response tokens"""

    def __init__(self, toks):
        self.t = list(toks)
        self.i = 0

    def next(self):
        v = self.t[self.i]
        self.i += 1
        return v

    def int(self):
        return int(self.next())

    def bytes(self):
        return unhexs(self.next())

    def more(self):
        return self.i < len(self.t)

    def num(self):
        """pynum -> python float (correctly rounded from the exact decimal)"""
        k = self.next()
        s = self.int()
        if k == "I":
            return -math.inf if s else math.inf
        if k == "N":
            return math.nan
        m = self.int()
        e = self.int()
        return dec_to_float(s, m, e)

    def rrec(self):
        resnum = self.int()
        resname = self.bytes()
        name = self.bytes()
        atomnum = self.int()
        vals = [self.num(), self.num(), self.num()]
        if self.int():
            vals += [self.num(), self.num(), self.num()]
        return (resnum, resname, name, atomnum, *vals)

    def box(self):
        return [self.num() for _ in range(9)]


def dec_to_float(s: int, m: int, e: int) -> float:
    if m == 0:
        return -0.0 if s else 0.0
    if e > 400:
        v = math.inf
    elif e < -1200 - len(str(m)):
        v = 0.0
    else:
        fr = Fraction(m) * (Fraction(10) ** e)
        try:
            v = float(fr)
        except OverflowError:
            v = math.inf
    return -v if s else v


def same_float(a: float, b: float) -> bool:
    a = float(a)
    b = float(b)
    if math.isnan(a) or math.isnan(b):
        return math.isnan(a) and math.isnan(b)
    return struct.pack("<d", a) == struct.pack("<d", b)


def same_rec(a, b) -> bool:
    if len(a) != len(b):
        return False
    if (int(a[0]), a[1], a[2], int(a[3])) != (int(b[0]), b[1], b[2], int(b[3])):
        return False
    return all(same_float(x, y) for x, y in zip(a[4:], b[4:]))


# ----------------------------------------------------------------------------- exact predicates


def scaled_round(x: float, d: int) -> int:
    """round-half-even(|x| * 10^d) on the exact binary value"""
    return round(Fraction(abs(float(x))) * 10 ** d)      # Fraction.__round__ is half-even


def fixed_len(x: float, d: int) -> int:
    r = scaled_round(x, d)
    neg = 1 if math.copysign(1.0, x) < 0 else 0
    return neg + len(str(r // 10 ** d)) + (1 + d if d else 0)


def fits(w: int, d: int, x: float) -> bool:
    return fixed_len(x, d) <= w


def ulp(x: float) -> Fraction:
    x = abs(float(x))
    if x == 0.0:
        return Fraction(5e-324)
    return Fraction(math.ulp(x))


def within_half_unit(written: float, read: float, d: int) -> bool:
    """|read - written| <= 1/2 * 10^-d, evaluated exactly; `float()` of the decimal text is itself
    rounded to the nearest double, which is allowed for (half an ulp of the value read)"""
    if math.isnan(read) or math.isinf(read):
        return False
    return abs(Fraction(read) - Fraction(written)) <= Fraction(1, 2 * 10 ** d) + ulp(read) / 2


# ----------------------------------------------------------------------------- generators


def gen_name(rng, long_ok=False) -> str:
    n = rng.choice([1, 2, 3, 3, 4, 4, 5, 5])
    if long_ok and rng.random() < 0.5:
        n = rng.randint(6, 9)
    return "".join(rng.choice(NAME_CHARS) for _ in range(n))


def gen_number(rng) -> int:
    k = rng.random()
    if k < 0.35:
        return rng.choice(BOUNDARY_NUMBERS)
    if k < 0.6:
        return rng.randint(0, 99999)
    if k < 0.8:
        return rng.randint(99990, 100010)
    return rng.randint(0, 10 ** 7)


def gen_value(rng, w: int, d: int) -> float:
    """a double whose '{:.df}' text fits `w` characters (checked exactly); covers negative values,
    -0.0, values that round to zero, exact rounding ties m / 2^(d+1), their float neighbours, and
    values that just fit the width"""
    for _ in range(200):
        k = rng.random()
        if k < 0.08:
            x = rng.choice([0.0, -0.0, -0.0004, 0.0004, -0.4 * 10 ** -d, 0.5 * 10 ** -d, -0.5 * 10 ** -d,
                            4.9e-324, -4.9e-324, 1e-300])
        elif k < 0.28:
            m = 2 * rng.randint(0, 10 ** rng.randint(1, d + 2)) + 1
            x = m / 2 ** (d + 1)                      # x * 10^d is exactly a half-integer
            j = rng.random()
            if j < 0.2:
                x = math.nextafter(x, math.inf)
            elif j < 0.4:
                x = math.nextafter(x, -math.inf)
            if rng.random() < 0.5:
                x = -x
        elif k < 0.43:
            # just fitting: the largest magnitudes for this width
            ip_digits = w - d - 1
            neg = rng.random() < 0.5
            if neg:
                ip_digits -= 1
            top = 10 ** max(ip_digits, 0)
            x = top - rng.choice([0.5, 0.51, 0.49, 0.6, 1.0, 2.5]) * 10 ** -d * rng.choice([1, 1, 2, 10])
            if rng.random() < 0.3:
                x = math.nextafter(top - 0.5 * 10 ** -d, rng.choice([math.inf, -math.inf]))
            if neg:
                x = -x
        elif k < 0.6:
            x = rng.randint(-10 ** min(3, w - d - 2), 10 ** min(3, w - d - 2)) / 8 * 10 ** -2
        else:
            mag = rng.uniform(-d - 2, w - d - 1)
            x = rng.choice([-1, 1]) * 10 ** mag * rng.uniform(0.1, 1)
        if fits(w, d, x):
            return float(x)
    return 0.0


def gen_record(rng, w, d, vel, numbers=None):
    resnum = gen_number(rng) if numbers is None else numbers[0]
    atomnum = gen_number(rng) if numbers is None else numbers[1]
    r = [resnum, gen_name(rng), gen_name(rng), atomnum] + [gen_value(rng, w, d) for _ in range(3)]
    if vel:
        r += [gen_value(rng, w, d + 1) for _ in range(3)]
    return r


def gen_box(rng):
    def val():
        k = rng.random()
        if k < 0.2:
            return float(rng.choice([0.0, 1.0, 5.0, 10.0, 0.000005, 0.000015, 123456.789, -0.0]))
        if k < 0.4:
            return (2 * rng.randint(0, 10 ** 6) + 1) / 2 ** 6 * rng.choice([1, -1])      # ties at 5 decimals
        return rng.choice([1, 1, 1, -1]) * 10 ** rng.uniform(-6, 4)
    k = rng.random()
    if k < 0.35:
        return ["b3", [val(), val(), val()]]
    if k < 0.55:
        m = [[0.0] * 3 for _ in range(3)]
        for i in range(3):
            m[i][i] = val()
        return ["b9", m]
    m = [[val() if rng.random() < 0.7 else 0.0 for _ in range(3)] for _ in range(3)]
    return ["b9", m]


NONASCII_TITLES = ["Membrana lip\u00eddica en agua, 310 K", "\u00c5", "50 \u00c5 patch (\u03b1 phase) \u2014 DPPC",
                   "\u819c\u6a21\u62df", "\u6c34", "na\u00efve caf\u00e9 \u00b5s", "\u00a0nbsp\u00a0", "x\U0001f9ea",
                   "\u0394G = -12.5 kJ/mol \u00b1 0.3", "\u00e9"]
NONASCII_CHARS = "\u00e9\u00ed\u00c5\u00f1\u00fc\u00b5\u00df\u00a0\u03b1\u0394\u2014\u6c34\u819c\U0001f9ea\u0416"


def gen_title(rng, nonascii=False):
    if rng.random() < 0.06:
        return rng.choice(["", "\n"])         # the empty title (one empty line in the file)
    n = rng.choice([1, 3, 10, 30, 80])
    t = "".join(rng.choice(TITLE_CHARS) for _ in range(rng.randint(1, n)))
    if nonascii and rng.random() < 0.35:
        # characters that take 2, 3 and 4 bytes in UTF-8: character counts and byte offsets differ
        if rng.random() < 0.4:
            t = rng.choice(NONASCII_TITLES)
        else:
            t = list(t)
            for _ in range(rng.randint(1, 4)):
                t.insert(rng.randint(0, len(t)), rng.choice(NONASCII_CHARS))
            t = "".join(t)
        if not encodable(t):                   # a locale whose encoding cannot write it: keep the title ASCII
            t = t.encode("ascii", "replace").decode("ascii")
    if rng.random() < 0.1:
        t = t + "\n"
    return t


def gen_valid_session(rng, nrec=None, max_rec=300, boundary=False, small_numbers=False, nonascii_titles=False):
    """a session in the property's quantifier: optional setters, >= 1 record with consistent
    velocity presence, close"""
    if nrec is None:
        k = rng.random()
        nrec = rng.randint(1, 6) if k < 0.45 else rng.randint(7, 40) if k < 0.85 else rng.randint(41, max_rec)
    setters = []
    fmt = None
    if rng.random() < 0.55:
        d = rng.randint(1, 6)
        fmt = (d + 5, d)
        setters.append(["f", fmt[0], fmt[1]])
    w, d = fmt if fmt else (8, 3)
    if rng.random() < 0.6:
        setters.append(["c", gen_title(rng, nonascii=nonascii_titles)])
    if rng.random() < 0.7:
        setters.append(gen_box(rng))
    declared = rng.random() < 0.5
    if declared:
        setters.append(["n", nrec])
    rng.shuffle(setters)
    vel = rng.random() < 0.45
    recs = []
    for i in range(nrec):
        nums = None
        if boundary:
            nums = (rng.choice(BOUNDARY_NUMBERS), rng.choice(BOUNDARY_NUMBERS))
        if small_numbers:       # C14: the five-digit wrap is C13's matter
            nums = (rng.randint(0, 99998), rng.randint(0, 99998))
        recs.append(["w", gen_record(rng, w, d, vel, nums)])
    return setters + recs + [["x"]]


def gen_invalid_session(rng):
    """malformed stream: outside the property's quantifier (model correspondence only)"""
    ops = gen_valid_session(rng, nrec=rng.randint(1, 8))
    k = rng.randrange(8)
    recs = [i for i, o in enumerate(ops) if o[0] == "w"]
    w, d = next(((o[1], o[2]) for o in ops if o[0] == "f"), (8, 3))
    if k == 0:      # inconsistent velocities
        i = rng.choice(recs)
        r = ops[i][1]
        ops[i] = ["w", r[:7] if len(r) == 10 else r + [0.1, -0.2, 0.3]]
    elif k == 1:    # declared count wrong
        ops = [o for o in ops if o[0] != "n"]
        ops.insert(0, ["n", len(recs) + rng.choice([-1, 1, 2])])
    elif k == 2:    # setter after the first record
        i = recs[0] + 1
        ops.insert(i, rng.choice([["n", len(recs)], ["f", rng.randint(6, 11), rng.randint(1, 6)],
                                  ["c", "late title"], gen_box(rng)]))
    elif k == 3:    # value that does not fit
        i = rng.choice(recs)
        ops[i][1][4 + rng.randrange(3)] = rng.choice([-1, 1]) * 10.0 ** (w - d) * rng.uniform(1, 50)
    elif k == 4:    # long names (truncated with a warning)
        i = rng.choice(recs)
        ops[i][1][1] = gen_name(rng, long_ok=True)
        ops[i][1][2] = gen_name(rng, long_ok=True)
    elif k == 5:    # format with width != decimals + 5
        ops = [o for o in ops if o[0] != "f"]
        ops.insert(0, ["f", rng.randint(7, 14), rng.randint(0, 6)])
    elif k == 6:    # no close / double close / write after close
        j = rng.randrange(3)
        if j == 0:
            ops = ops[:-1]
        elif j == 1:
            ops = ops + [["x"]]
        else:
            ops = ops + [ops[recs[0]]]
    else:           # negative numbers
        i = rng.choice(recs)
        ops[i][1][0] = -rng.randint(1, 200000)
        ops[i][1][3] = -rng.randint(1, 200000)
    return ops


# ----------------------------------------------------------------------------- real implementation


class SnapFile:
    """stands in for `GroFile._file`: delegates everything, flushes after every `write` and calls back"""

    def __init__(self, f, on_write):
        object.__setattr__(self, "_f", f)
        object.__setattr__(self, "_cb", on_write)

    def write(self, s):
        r = self._f.write(s)
        self._f.flush()
        self._cb(s)
        return r

    def __getattr__(self, name):
        return getattr(self._f, name)


def apply_op(g, op):
    import numpy as np
    k = op[0]
    if k == "c":
        g.comment = op[1]
    elif k == "b3":
        g.box_matrix = np.array([float(v) for v in op[1]])
    elif k == "b9":
        g.box_matrix = np.array([[float(v) for v in row] for row in op[1]])
    elif k == "n":
        g.natoms = int(op[1])
    elif k == "f":
        g.position_format = (int(op[1]), int(op[2]))
    elif k == "w":
        r = op[1]
        g.writeline((int(r[0]), str(r[1]), str(r[2]), int(r[3])) + tuple(float(v) for v in r[4:]))
    elif k == "x":
        g.close()
    else:
        raise ValueError(f"unknown op {op!r}")


def read_bytes(path) -> bytes:
    with open(path, "rb") as f:
        return f.read()


def run_session(path, ops, snap=False):
    """drive the real GroFile; returns (errors per op, final bytes, snapshots)
    snapshots: list of (op_index, write_index_in_op or None for 'after op', bytes)"""
    from gaddlemaps.parsers import GroFile
    errs = []
    snaps = []
    with warnings.catch_warnings():
        warnings.simplefilter("ignore")
        g = GroFile(path, "w")
        state = {"op": -1, "w": 0}
        if snap:
            def cb(_s):
                snaps.append((state["op"], state["w"], read_bytes(path)))
                state["w"] += 1
            g._file = SnapFile(g._file, cb)
        for i, op in enumerate(ops):
            state["op"], state["w"] = i, 0
            try:
                apply_op(g, op)
                errs.append(None)
            except Exception as e:      # noqa: BLE001 - the class is the observable
                errs.append(type(e).__name__)
            if snap:
                try:
                    g._file.flush()
                except ValueError:
                    pass
                snaps.append((i, None, read_bytes(path)))
        try:
            g._file.close()
        except Exception:               # noqa: BLE001
            pass
    return errs, read_bytes(path), snaps


def run_abandoned(path, ops):
    """drive the real GroFile through `ops` (no close among them) and then ABANDON the writer: the last
    reference is dropped and the garbage collector runs — what happens to the object when the program
    moves on or unwinds after an error.  Returns the bytes then on disk.  (Seed C14-3: a finaliser that
    'helpfully' closes — i.e. completes — the file of an abandoned writer.)"""
    import gc
    from gaddlemaps.parsers import GroFile
    with warnings.catch_warnings():
        warnings.simplefilter("ignore")
        g = GroFile(path, "w")
        for op in ops:
            try:
                apply_op(g, op)
            except Exception:           # noqa: BLE001
                pass
        del g
        gc.collect()
    return read_bytes(path)


def read_back(path):
    """open with the real reader and read everything; exceptions mapped to class names"""
    from gaddlemaps.parsers import GroFile
    out = {}
    with warnings.catch_warnings():
        warnings.simplefilter("ignore")
        try:
            r = GroFile(path)
        except Exception as e:          # noqa: BLE001
            return {"open_err": type(e).__name__}
        try:
            out["title"] = r.comment
            out["natoms"] = r.natoms
            out["fmt"] = tuple(r._format["position"])
            out["vel"] = bool(r._format["velocities"])
            out["box"] = [float(v) for v in r.box_matrix.ravel()]
            out["init"] = r._init_position
            out["size"] = r._atomline_bytesize
            try:
                out["recs"] = [tuple(x) for x in r.readlines()]
            except Exception as e:      # noqa: BLE001
                out["rerr"] = type(e).__name__
        finally:
            r.close()
    return out


def write_file(path, data: bytes):
    with open(path, "wb") as f:
        f.write(data)


def modelled_text(data: bytes) -> bool:
    """the byte-list file model covers text without '\\r' (universal newlines are not modelled); bytes >= 128
    (encoded non-ASCII title characters) are covered when the interpreter's encoding is byte-modelled"""
    if 13 in data:
        return False
    return BYTE_MODELLED_ENCODING or all(b < 128 for b in data)


def parse_read_response(status, toks):
    """decode the `gro_read` response into the same shape as `read_back`"""
    if status == "err":
        return {"open_err": toks[0]}
    t = Toks(toks)
    out = {"title": t.bytes(), "natoms": t.int(), "init": t.int(), "size": t.int()}
    nfig = t.int()
    ndec = t.int()
    out["fmt"] = (nfig, ndec)
    out["vel"] = bool(t.int())
    out["box"] = t.box()
    k = t.next()
    if k == "rerr":
        out["rerr"] = t.next()
    else:
        n = t.int()
        out["recs"] = [t.rrec() for _ in range(n)]
    return out


def compare_read(impl: dict, model: dict):
    """None when equal, else a short description"""
    if ("open_err" in impl) or ("open_err" in model):
        return None if impl.get("open_err") == model.get("open_err") else "open error"
    try:        # the model's title is the raw (encoded) first line
        if text_bytes(impl["title"]).decode("latin-1") != model["title"]:
            return "title"
    except UnicodeEncodeError:
        return "title"
    for k in ("natoms", "init", "size", "fmt", "vel"):
        if impl[k] != model[k]:
            return k
    if not all(same_float(a, b) for a, b in zip(impl["box"], model["box"])):
        return "box"
    if impl.get("rerr") != model.get("rerr"):
        return "readlines error"
    if "recs" in impl:
        if len(impl["recs"]) != len(model["recs"]):
            return "record count"
        for a, b in zip(impl["recs"], model["recs"]):
            if not same_rec(a, b):
                return "record"
    return None


def shipped_gro_files():
    import gaddlemaps
    d = os.path.join(os.path.dirname(gaddlemaps.__file__), "data")
    out = []
    for root, _dirs, files in os.walk(os.path.dirname(gaddlemaps.__file__)):
        for f in sorted(files):
            if f.lower().endswith(".gro"):
                out.append(os.path.join(root, f))
    del d
    return sorted(out)
