"""harness.grogen — shared by C13 / C14: codecs for the Gro driver ops, generators of writer
sessions, a runner that drives the real `GroFile` (optionally snapshotting the file after every
`write` call), an exact (Fraction) evaluation of the property's numeric clauses.

A *session* is a JSON-serialisable list of ops
    ["c", title] | ["b3", [a,b,c]] | ["b9", [[3],[3],[3]]] | ["n", natoms] | ["f", w, d]
    | ["w", [resnum, resname, name, atomnum, x, y, z(, vx, vy, vz)]] | ["x"]
    | ["ws", rec]      writeline(str) where str is exactly the text of `rec` in the session's position format
                       (resolved by `resolve_ops`; in the property's quantifier: must round-trip like a record)
    | ["s", text]      writeline(text): any pre-formatted string
    | ["t", n]         writeline(tuple(range(n))), n not in (7, 10)
    | ["bx", shape]    box_matrix = numpy.zeros(shape), shape not in ((3,), (3,3))

A *reader script* is a list of
    ["c", title] | ["b3", ..] | ["b9", ..] | ["bx", shape] | ["n", k] | ["f", w, d]   (setters: AttributeError)
    | ["k", index]     seek_atom(index)
    | ["l", parsed]    readline(parsed)
"""
from __future__ import annotations

import math
import os
import struct
import warnings
from fractions import Fraction

from .common import hexs, unhexs

def _default_text_encoding():
    """the encoding `open(path, 'w')` / `open(path)` use in THIS interpreter (GroFile opens its files in text
    mode without an `encoding=` argument): locale dependent, UTF-8 in UTF-8 mode"""
    import codecs
    with open(os.devnull, "w") as f:
        enc = f.encoding
    return codecs.lookup(enc).name


TEXT_ENCODING = _default_text_encoding()
# encodings for which the byte-list file model is exact: stateless, '\n' is the single byte 0x0A and never part
# of a multi-byte sequence, so `tell()` cookies are plain byte offsets and `readline` splits at byte 0x0A
BYTE_MODELLED_ENCODING = (TEXT_ENCODING in ("utf-8", "ascii") or TEXT_ENCODING.startswith("iso8859")
                          or TEXT_ENCODING.startswith("cp125"))


def text_bytes(s: str) -> bytes:
    """what the text layer writes to the file for `s`"""
    return s.encode(TEXT_ENCODING)


def encodable(s: str) -> bool:
    try:
        s.encode(TEXT_ENCODING)
        return True
    except UnicodeEncodeError:
        return False


BOUNDARY_NUMBERS = [0, 1, 9, 10, 99, 9999, 10000, 99998, 99999, 100000, 100001, 10 ** 5 - 1, 199998, 199999,
                    200000, 10 ** 6 - 1, 10 ** 6, 10 ** 6 + 1, 10 ** 7 - 1, 10 ** 7]
NAME_CHARS = "ABCDEFGHIJKLMNOPQRSTUVWXYZabcdefghijklmnopqrstuvwxyz0123456789+-*'#_.()[]"
NAME_CHARS_MODEL = NAME_CHARS  # '_' is fine in names (only numeric fields are 'unmodelled' with '_')
TITLE_CHARS = "".join(chr(c) for c in range(32, 127))

# ----------------------------------------------------------------------------- codecs


def dy(x: float) -> str:
    """finite double -> 'sign mantissa exponent' with value (-1)^s * m * 2^e"""
    x = float(x)
    if math.isnan(x) or math.isinf(x):
        raise ValueError("non-finite value cannot be sent as a dyadic")
    s = 1 if math.copysign(1.0, x) < 0 else 0
    n, d = abs(x).as_integer_ratio()
    return f"{s} {n} {-(d.bit_length() - 1)}"


def rec_tokens(r) -> str:
    out = [str(int(r[0])), hexs(r[1]), hexs(r[2]), str(int(r[3])), dy(r[4]), dy(r[5]), dy(r[6])]
    if len(r) == 10:
        out += ["1", dy(r[7]), dy(r[8]), dy(r[9])]
    else:
        out.append("0")
    return " ".join(out)


def op_tokens(op) -> str:
    k = op[0]
    if k == "c":
        return "c " + hexs(text_bytes(op[1]))      # the model works on the ENCODED title (byte offsets)
    if k == "b3":
        return "b3 " + " ".join(dy(v) for v in op[1])
    if k == "b9":
        return "b9 " + " ".join(dy(v) for row in op[1] for v in row)
    if k == "n":
        return f"n {int(op[1])}"
    if k == "f":
        return f"f {int(op[1])} {int(op[2])}"
    if k == "w":
        return "w " + rec_tokens(op[1])
    if k == "x":
        return "x"
    if k == "s":
        return "s " + hexs(text_bytes(op[1]))      # what the text layer writes for it
    if k == "t":
        return f"t {int(op[1])}"
    if k == "bx":
        return "bx"
    raise ValueError(f"unknown op {op!r}")


def py_line(rec, w, d) -> str:
    """the text of an atom record in the format (w, d) — written independently of `parse_atomlist`"""
    out = "{:5d}{:5s}{:>5s}{:5d}".format(rec[0] % 100000, rec[1], rec[2], rec[3] % 100000)
    out += "".join("{:{w}.{d}f}".format(v, w=w, d=d) for v in rec[4:7])
    if len(rec) == 10:
        out += "".join("{:{w}.{d}f}".format(v, w=w, d=d + 1) for v in rec[7:])
    return out


def session_format(ops):
    """the position format in force when the first line is written: the last `f` before it, else (8, 3)"""
    fmt = (8, 3)
    for o in ops:
        if o[0] in ("w", "ws", "s", "t"):
            break
        if o[0] == "f":
            fmt = (int(o[1]), int(o[2]))
    return fmt


def resolve_ops(ops):
    """replace every ["ws", rec] by ["s", text of rec in the session's format]"""
    if not any(o[0] == "ws" for o in ops):
        return ops
    w, d = session_format(ops)
    return [["s", py_line(o[1], w, d)] if o[0] == "ws" else o for o in ops]


def ops_tokens(ops) -> str:
    ops = resolve_ops(ops)
    return " ".join([str(len(ops))] + [op_tokens(o) for o in ops])


def rop_tokens(op) -> str:
    k = op[0]
    if k in ("c", "b3", "b9", "n", "f", "bx"):
        return op_tokens(op)
    if k == "k":
        return f"k {int(op[1])}"
    if k == "l":
        return f"l {1 if op[1] else 0}"
    raise ValueError(f"unknown reader op {op!r}")


def rops_tokens(rops) -> str:
    return " ".join([str(len(rops))] + [rop_tokens(o) for o in rops])


class Toks:
    """sequential reader over response tokens"""

    def __init__(self, toks):
        self.t = list(toks)
        self.i = 0

    def next(self):
        v = self.t[self.i]
        self.i += 1
        return v

    def int(self):
        return int(self.next())

    def bytes(self):
        return unhexs(self.next())

    def more(self):
        return self.i < len(self.t)

    def num(self):
        """pynum -> python float (correctly rounded from the exact decimal)"""
        k = self.next()
        s = self.int()
        if k == "I":
            return -math.inf if s else math.inf
        if k == "N":
            return math.nan
        m = self.int()
        e = self.int()
        return dec_to_float(s, m, e)

    def rrec(self):
        resnum = self.int()
        resname = self.bytes()
        name = self.bytes()
        atomnum = self.int()
        vals = [self.num(), self.num(), self.num()]
        if self.int():
            vals += [self.num(), self.num(), self.num()]
        return (resnum, resname, name, atomnum, *vals)

    def box(self):
        return [self.num() for _ in range(9)]


def dec_to_float(s: int, m: int, e: int) -> float:
    if m == 0:
        return -0.0 if s else 0.0
    if e > 400:
        v = math.inf
    elif e < -1200 - len(str(m)):
        v = 0.0
    else:
        fr = Fraction(m) * (Fraction(10) ** e)
        try:
            v = float(fr)
        except OverflowError:
            v = math.inf
    return -v if s else v


def same_float(a: float, b: float) -> bool:
    a = float(a)
    b = float(b)
    if math.isnan(a) or math.isnan(b):
        return math.isnan(a) and math.isnan(b)
    return struct.pack("<d", a) == struct.pack("<d", b)


def same_rec(a, b) -> bool:
    if len(a) != len(b):
        return False
    if (int(a[0]), a[1], a[2], int(a[3])) != (int(b[0]), b[1], b[2], int(b[3])):
        return False
    return all(same_float(x, y) for x, y in zip(a[4:], b[4:]))


# ----------------------------------------------------------------------------- exact predicates


def scaled_round(x: float, d: int) -> int:
    """round-half-even(|x| * 10^d) on the exact binary value"""
    return round(Fraction(abs(float(x))) * 10 ** d)      # Fraction.__round__ is half-even


def fixed_len(x: float, d: int) -> int:
    r = scaled_round(x, d)
    neg = 1 if math.copysign(1.0, x) < 0 else 0
    return neg + len(str(r // 10 ** d)) + (1 + d if d else 0)


def fits(w: int, d: int, x: float) -> bool:
    return fixed_len(x, d) <= w


def ulp(x: float) -> Fraction:
    x = abs(float(x))
    if x == 0.0:
        return Fraction(5e-324)
    return Fraction(math.ulp(x))


def within_half_unit(written: float, read: float, d: int) -> bool:
    """|read - written| <= 1/2 * 10^-d, evaluated exactly; `float()` of the decimal text is itself
    rounded to the nearest double, which is allowed for (half an ulp of the value read)"""
    if math.isnan(read) or math.isinf(read):
        return False
    return abs(Fraction(read) - Fraction(written)) <= Fraction(1, 2 * 10 ** d) + ulp(read) / 2


# ----------------------------------------------------------------------------- generators


def gen_name(rng, long_ok=False) -> str:
    n = rng.choice([1, 2, 3, 3, 4, 4, 5, 5])
    if long_ok and rng.random() < 0.5:
        n = rng.randint(6, 9)
    return "".join(rng.choice(NAME_CHARS) for _ in range(n))


def gen_number(rng) -> int:
    k = rng.random()
    if k < 0.35:
        return rng.choice(BOUNDARY_NUMBERS)
    if k < 0.6:
        return rng.randint(0, 99999)
    if k < 0.8:
        return rng.randint(99990, 100010)
    return rng.randint(0, 10 ** 7)


def gen_value(rng, w: int, d: int) -> float:
    """a double whose '{:.df}' text fits `w` characters (checked exactly); covers negative values,
    -0.0, values that round to zero, exact rounding ties m / 2^(d+1), their float neighbours, and
    values that just fit the width"""
    for _ in range(200):
        k = rng.random()
        if k < 0.08:
            x = rng.choice([0.0, -0.0, -0.0004, 0.0004, -0.4 * 10 ** -d, 0.5 * 10 ** -d, -0.5 * 10 ** -d,
                            4.9e-324, -4.9e-324, 1e-300])
        elif k < 0.28:
            m = 2 * rng.randint(0, 10 ** rng.randint(1, d + 2)) + 1
            x = m / 2 ** (d + 1)                      # x * 10^d is exactly a half-integer
            j = rng.random()
            if j < 0.2:
                x = math.nextafter(x, math.inf)
            elif j < 0.4:
                x = math.nextafter(x, -math.inf)
            if rng.random() < 0.5:
                x = -x
        elif k < 0.43:
            # just fitting: the largest magnitudes for this width
            ip_digits = w - d - 1
            neg = rng.random() < 0.5
            if neg:
                ip_digits -= 1
            top = 10 ** max(ip_digits, 0)
            x = top - rng.choice([0.5, 0.51, 0.49, 0.6, 1.0, 2.5]) * 10 ** -d * rng.choice([1, 1, 2, 10])
            if rng.random() < 0.3:
                x = math.nextafter(top - 0.5 * 10 ** -d, rng.choice([math.inf, -math.inf]))
            if neg:
                x = -x
        elif k < 0.6:
            x = rng.randint(-10 ** min(3, w - d - 2), 10 ** min(3, w - d - 2)) / 8 * 10 ** -2
        else:
            mag = rng.uniform(-d - 2, w - d - 1)
            x = rng.choice([-1, 1]) * 10 ** mag * rng.uniform(0.1, 1)
        if fits(w, d, x):
            return float(x)
    return 0.0


def gen_record(rng, w, d, vel, numbers=None):
    resnum = gen_number(rng) if numbers is None else numbers[0]
    atomnum = gen_number(rng) if numbers is None else numbers[1]
    r = [resnum, gen_name(rng), gen_name(rng), atomnum] + [gen_value(rng, w, d) for _ in range(3)]
    if vel:
        r += [gen_value(rng, w, d + 1) for _ in range(3)]
    return r


def gen_box(rng):
    def val():
        k = rng.random()
        if k < 0.2:
            return float(rng.choice([0.0, 1.0, 5.0, 10.0, 0.000005, 0.000015, 123456.789, -0.0]))
        if k < 0.4:
            return (2 * rng.randint(0, 10 ** 6) + 1) / 2 ** 6 * rng.choice([1, -1])      # ties at 5 decimals
        return rng.choice([1, 1, 1, -1]) * 10 ** rng.uniform(-6, 4)
    k = rng.random()
    if k < 0.35:
        return ["b3", [val(), val(), val()]]
    if k < 0.55:
        m = [[0.0] * 3 for _ in range(3)]
        for i in range(3):
            m[i][i] = val()
        return ["b9", m]
    m = [[val() if rng.random() < 0.7 else 0.0 for _ in range(3)] for _ in range(3)]
    return ["b9", m]


NONASCII_TITLES = ["Membrana lip\u00eddica en agua, 310 K", "\u00c5", "50 \u00c5 patch (\u03b1 phase) \u2014 DPPC",
                   "\u819c\u6a21\u62df", "\u6c34", "na\u00efve caf\u00e9 \u00b5s", "\u00a0nbsp\u00a0", "x\U0001f9ea",
                   "\u0394G = -12.5 kJ/mol \u00b1 0.3", "\u00e9"]
NONASCII_CHARS = "\u00e9\u00ed\u00c5\u00f1\u00fc\u00b5\u00df\u00a0\u03b1\u0394\u2014\u6c34\u819c\U0001f9ea\u0416"


def gen_title(rng, nonascii=False):
    if rng.random() < 0.06:
        return rng.choice(["", "\n"])         # the empty title (one empty line in the file)
    n = rng.choice([1, 3, 10, 30, 80])
    t = "".join(rng.choice(TITLE_CHARS) for _ in range(rng.randint(1, n)))
    if nonascii and rng.random() < 0.35:
        # characters that take 2, 3 and 4 bytes in UTF-8: character counts and byte offsets differ
        if rng.random() < 0.4:
            t = rng.choice(NONASCII_TITLES)
        else:
            t = list(t)
            for _ in range(rng.randint(1, 4)):
                t.insert(rng.randint(0, len(t)), rng.choice(NONASCII_CHARS))
            t = "".join(t)
        if not encodable(t):                   # a locale whose encoding cannot write it: keep the title ASCII
            t = t.encode("ascii", "replace").decode("ascii")
    if rng.random() < 0.1:
        t = t + "\n"
    return t


def gen_valid_session(rng, nrec=None, max_rec=300, boundary=False, small_numbers=False, nonascii_titles=False):
    """a session in the property's quantifier: optional setters, >= 1 record with consistent
    velocity presence, close"""
    if nrec is None:
        k = rng.random()
        nrec = rng.randint(1, 6) if k < 0.45 else rng.randint(7, 40) if k < 0.85 else rng.randint(41, max_rec)
    setters = []
    fmt = None
    if rng.random() < 0.55:
        d = rng.randint(1, 6)
        fmt = (d + 5, d)
        setters.append(["f", fmt[0], fmt[1]])
    w, d = fmt if fmt else (8, 3)
    if rng.random() < 0.6:
        setters.append(["c", gen_title(rng, nonascii=nonascii_titles)])
    if rng.random() < 0.7:
        setters.append(gen_box(rng))
        if rng.random() < 0.2:
            # the box assigned twice (a triclinic cell, then a rectangular one, or any other pair): the LAST assignment
            # is the box of the file (seed C13-11: a setter that updates a kept buffer leaves stale off-diagonals)
            setters.append(gen_box(rng))
    declared = rng.random() < 0.5
    if declared:
        setters.append(["n", nrec])
    rng.shuffle(setters)
    vel = rng.random() < 0.45
    recs = []
    for i in range(nrec):
        nums = None
        if boundary:
            nums = (rng.choice(BOUNDARY_NUMBERS), rng.choice(BOUNDARY_NUMBERS))
        if small_numbers:       # C14: the five-digit wrap is C13's matter
            nums = (rng.randint(0, 99998), rng.randint(0, 99998))
        recs.append(["w", gen_record(rng, w, d, vel, nums)])
    if rng.random() < 0.12:
        # the box assigned after the last record and before close (it is written BY close, whatever was declared when):
        # seed C13-14 — the box line written as soon as the declared count is reached
        return setters + recs + [gen_box(rng), ["x"]]
    return setters + recs + [["x"]]


def gen_invalid_session(rng):
    """malformed stream: outside the property's quantifier (model correspondence only)"""
    ops = gen_valid_session(rng, nrec=rng.randint(1, 8))
    k = rng.randrange(8)
    recs = [i for i, o in enumerate(ops) if o[0] == "w"]
    w, d = next(((o[1], o[2]) for o in ops if o[0] == "f"), (8, 3))
    if k == 0:      # inconsistent velocities
        i = rng.choice(recs)
        r = ops[i][1]
        ops[i] = ["w", r[:7] if len(r) == 10 else r + [0.1, -0.2, 0.3]]
    elif k == 1:    # declared count wrong
        ops = [o for o in ops if o[0] != "n"]
        ops.insert(0, ["n", len(recs) + rng.choice([-1, 1, 2])])
    elif k == 2:    # setter after the first record
        i = recs[0] + 1
        ops.insert(i, rng.choice([["n", len(recs)], ["f", rng.randint(6, 11), rng.randint(1, 6)],
                                  ["c", "late title"], gen_box(rng)]))
    elif k == 3:    # value that does not fit
        i = rng.choice(recs)
        ops[i][1][4 + rng.randrange(3)] = rng.choice([-1, 1]) * 10.0 ** (w - d) * rng.uniform(1, 50)
    elif k == 4:    # long names (truncated with a warning)
        i = rng.choice(recs)
        ops[i][1][1] = gen_name(rng, long_ok=True)
        ops[i][1][2] = gen_name(rng, long_ok=True)
    elif k == 5:    # format with width != decimals + 5
        ops = [o for o in ops if o[0] != "f"]
        ops.insert(0, ["f", rng.randint(7, 14), rng.randint(0, 6)])
    elif k == 6:    # no close / double close / write after close
        j = rng.randrange(3)
        if j == 0:
            ops = ops[:-1]
        elif j == 1:
            ops = ops + [["x"]]
        else:
            ops = ops + [ops[recs[0]]]
    else:           # negative numbers
        i = rng.choice(recs)
        ops[i][1][0] = -rng.randint(1, 200000)
        ops[i][1][3] = -rng.randint(1, 200000)
    return ops


BAD_SHAPES = [[], [1], [2], [4], [9], [2, 2], [3, 2], [1, 3], [3, 1], [3, 3, 3], [0]]
BAD_LENGTHS = [0, 1, 2, 3, 4, 5, 6, 8, 9, 11, 12]
RAW_CHARS = "ABCxyz0123456789 .-+eE\t_#"


def gen_mixed_session(rng, nrec=None, max_rec=40, first_string=None):
    """IN the property's quantifier: a valid session in which some records are handed to `writeline` as the string
    `parse_atomlist` would have produced for them (`ws`); the first line too with probability 1/2"""
    ops = gen_valid_session(rng, nrec=nrec, max_rec=max_rec)
    first = True
    for o in ops:
        if o[0] == "w":
            p = (0.5 if first_string is None else (1.0 if first_string else 0.0)) if first else 0.5
            if rng.random() < p:
                o[0] = "ws"
            first = False
    return ops


def gen_raw_line(rng, w, d, vel):
    """a pre-formatted line, well- or ill-formed"""
    k = rng.random()
    rec = gen_record(rng, w, d, vel)
    line = py_line(rec, w, d)
    if k < 0.25:
        return line                                                # well formed, the session's format
    if k < 0.4:
        d2 = rng.randint(1, 6)                                     # well formed, ANOTHER format
        return py_line(gen_record(rng, d2 + 5, d2, rng.random() < 0.5), d2 + 5, d2)
    if k < 0.5:
        return line[:rng.randint(0, len(line))]                    # truncated (incl. empty)
    if k < 0.62:
        j = rng.randrange(len(line))
        return line[:j] + rng.choice(". x\n-e") + line[j + 1:]     # one character replaced
    if k < 0.7:
        return line + rng.choice(["\n", " ", "0", ".", "\n\n", "\nx"])
    if k < 0.78:
        # numbers / values in other legal spellings (sign, exponent, no leading zero, inf, nan, '_')
        f = rng.choice(["  1e-3", "   +.5", "   inf", "   nan", "  -inf", " 1_0.0", "  1.e1", " 0.5e1", "1.5E+2", "  -0.0"])
        f = f.rjust(w)[:w] if len(f) <= w else f[:w]
        i = rng.randrange(3)
        return line[:20 + i * w] + f + line[20 + (i + 1) * w:]
    if k < 0.86:
        n = rng.choice(["   -1", "  +12", " 1 2 ", "     ", "12a45", "1e3  ", "-9999", "1_000"])
        return (n + line[5:]) if rng.random() < 0.5 else (line[:15] + n + line[20:])
    if k < 0.93:
        return "".join(rng.choice(RAW_CHARS) for _ in range(rng.randint(0, 70)))
    return rng.choice(["", "\n", " ", "x", "no dots here at all", "1.2.3", "." * 23, " " * 20 + "." * 6])


def gen_api_session(rng):
    """malformed stream for the rest of the writer API (model correspondence only): string lines (first / later,
    well- or ill-formed, in the session's format or another), tuples of a wrong length, boxes of a wrong shape,
    sessions closed without a record (count undeclared / declared 0 / declared k), writes after close"""
    k = rng.randrange(8)
    if k == 0:      # closed before any record
        ops = [o for o in gen_valid_session(rng, nrec=1) if o[0] not in ("w", "n")]
        j = rng.randrange(4)
        if j == 1:
            ops.insert(rng.randrange(len(ops)), ["n", 0])
        elif j == 2:
            ops.insert(rng.randrange(len(ops)), ["n", rng.randint(1, 5)])
        elif j == 3:
            ops = ops + [["x"]] + ([["w", gen_record(rng, 8, 3, False)]] if rng.random() < 0.5 else [])
        return ops
    ops = gen_valid_session(rng, nrec=rng.randint(1, 6))
    w, d = session_format(ops)
    recs = [i for i, o in enumerate(ops) if o[0] == "w"]
    vel = len(ops[recs[0]][1]) == 10
    if k == 1:      # the FIRST line is a string of any kind
        ops[recs[0]] = ["s", gen_raw_line(rng, w, d, vel)]
        if rng.random() < 0.3 and len(recs) > 1:
            ops[recs[1]] = ["s", gen_raw_line(rng, w, d, vel)]
    elif k == 2:    # later lines are strings of any kind
        for i in recs[1:] or recs:
            if rng.random() < 0.7:
                ops[i] = ["s", gen_raw_line(rng, w, d, vel)]
        if len(recs) == 1:
            ops.insert(recs[0] + 1, ["s", gen_raw_line(rng, w, d, vel)])
    elif k == 3:    # a tuple of a wrong length as the first line
        ops.insert(recs[0], ["t", rng.choice(BAD_LENGTHS)])
        if rng.random() < 0.3:
            ops = [o for o in ops if o[0] != "w"]
    elif k == 4:    # … as a later line
        ops.insert(rng.choice(recs) + 1, ["t", rng.choice(BAD_LENGTHS)])
    elif k == 5:    # a box of a wrong shape, before or after the first line
        ops.insert(rng.randrange(len(ops)), ["bx", rng.choice(BAD_SHAPES)])
    elif k == 6:    # string lines after close / only strings
        ops = [o if o[0] != "w" else ["s", py_line(o[1], w, d)] for o in ops]
        if rng.random() < 0.5:
            ops.append(["s", "after close"])
    else:           # first line a string in ANOTHER format than the session's, then records
        d2 = rng.choice([x for x in range(1, 7) if x != d])
        ops[recs[0]] = ["s", py_line(gen_record(rng, d2 + 5, d2, vel), d2 + 5, d2)]
    return ops


def gen_reader_script(rng, natoms, nonneg=False):
    """read-mode API: seeks around and past the ends, raw / parsed reads, setters (all must raise)"""
    rops = []
    for _ in range(rng.randint(1, 14)):
        k = rng.random()
        if k < 0.4:
            j = rng.random()
            if j < 0.5:
                i = rng.randint(0, max(natoms, 0))
            elif j < 0.8:
                i = natoms + rng.randint(1, 3)
            elif j < 0.9:
                i = rng.choice([10 ** 6, 2 ** 40])
            else:
                i = -rng.randint(1, 3) if not nonneg else 0
            rops.append(["k", i])
        elif k < 0.8:
            rops.append(["l", rng.random() < 0.5])
        else:
            rops.append(rng.choice([["c", "new title"], ["n", rng.randint(0, 9)], ["f", rng.randint(6, 11), rng.randint(1, 6)],
                                    gen_box(rng), ["bx", rng.choice(BAD_SHAPES)]]))
    return rops


# ----------------------------------------------------------------------------- real implementation


MISSING = "<private-state-not-available>"


def priv(obj, name):
    """a PRIVATE attribute of a library object, or MISSING when the library no longer has it under that name (a rename
    in a refactor must cost a comparison of internals, not the check: §9.20)"""
    try:
        return getattr(obj, name)
    except AttributeError:
        return MISSING


def file_attr(g):
    """name of the attribute of a GroFile that holds its open file object (`_file` today): found by type, not by name"""
    import io
    d = getattr(g, "__dict__", {})
    if "_file" in d:
        return "_file"
    for k, v in d.items():
        if isinstance(v, (io.IOBase, SnapFile)):
            return k
    return "_file"


def gfile(g):
    return getattr(g, file_attr(g))


def _fmt_of(r):
    """(position format, velocities?) of a reader: the public `position_format`; the velocity flag is private"""
    f = priv(r, "_format")
    if f is not MISSING:
        try:
            return tuple(f["position"]), bool(f["velocities"])
        except Exception:   # noqa: BLE001
            pass
    try:
        return tuple(r.position_format), MISSING
    except Exception:       # noqa: BLE001
        return MISSING, MISSING


class SnapFile:
    """stands in for `GroFile._file`: delegates everything, flushes after every `write` and calls back"""

    def __init__(self, f, on_write):
        object.__setattr__(self, "_f", f)
        object.__setattr__(self, "_cb", on_write)

    def write(self, s):
        r = self._f.write(s)
        self._f.flush()
        self._cb(s)
        return r

    def __getattr__(self, name):
        return getattr(self._f, name)


def apply_op(g, op):
    import numpy as np
    k = op[0]
    if k == "c":
        g.comment = op[1]
    elif k == "b3":
        g.box_matrix = np.array([float(v) for v in op[1]])
    elif k == "b9":
        M = np.array([[float(v) for v in row] for row in op[1]])
        # the same 3x3 box as a C-ordered array, a Fortran-ordered one, or a nested list: the box written is a function
        # of the VALUES (seed C13-9: components picked from `ravel(order='K')`, i.e. memory order)
        sel = int(abs(M[0][0]) * 1000 + abs(M[1][0]) * 10) % 3
        g.box_matrix = M if sel == 0 else (np.asfortranarray(M) if sel == 1 else M.tolist())
    elif k == "n":
        g.natoms = int(op[1])
    elif k == "f":
        g.position_format = (int(op[1]), int(op[2]))
    elif k == "w":
        r = op[1]
        g.writeline((int(r[0]), str(r[1]), str(r[2]), int(r[3])) + tuple(float(v) for v in r[4:]))
    elif k == "x":
        g.close()
    elif k == "s":
        g.writeline(str(op[1]))
    elif k == "t":
        g.writeline(tuple(range(int(op[1]))))
    elif k == "bx":
        g.box_matrix = np.zeros(tuple(int(v) for v in op[1]))
    else:
        raise ValueError(f"unknown op {op!r}")


def read_bytes(path) -> bytes:
    with open(path, "rb") as f:
        return f.read()


def run_session_chunked(path, ops, chunks):
    """like run_session (no snapshots), but the records (`w` ops, which must be consecutive) are handed to
    `GroFile.writelines` in batches of the sizes in `chunks` (zeros = an empty list); records left over go one by
    one through writeline.  The model sees the plain op list: writelines(l) is writeline for each element.
    (Seed C13-5: a bulk write that emits a stray terminator for an empty remaining block.)"""
    from gaddlemaps.parsers import GroFile
    ops = resolve_ops(ops)
    errs = [None] * len(ops)
    widx = [i for i, o in enumerate(ops) if o[0] == "w"]
    with warnings.catch_warnings():
        warnings.simplefilter("ignore")
        g = GroFile(path, "w")
        i = 0
        batches = list(chunks)
        done_w = 0
        while i < len(ops):
            op = ops[i]
            if op[0] == "w":
                n = batches.pop(0) if batches else 1
                while n == 0:           # empty writelines calls before this record
                    try:
                        g.writelines([])
                    except Exception as e:   # noqa: BLE001
                        errs[i] = type(e).__name__
                    n = batches.pop(0) if batches else 1
                n = min(n, len(widx) - done_w)
                batch = [ops[j] for j in widx[done_w:done_w + n]]
                recs = [(int(r[1][0]), str(r[1][1]), str(r[1][2]), int(r[1][3])) + tuple(float(v) for v in r[1][4:])
                        for r in batch]
                try:
                    g.writelines(recs)
                except Exception as e:   # noqa: BLE001
                    errs[i] = type(e).__name__
                done_w += n
                i = widx[done_w - 1] + 1
                continue
            try:
                apply_op(g, op)
            except Exception as e:      # noqa: BLE001
                errs[i] = type(e).__name__
            i += 1
        try:
            gfile(g).close()
        except Exception:               # noqa: BLE001
            pass
    return errs, read_bytes(path), []


def run_session(path, ops, snap=False):
    """drive the real GroFile; returns (errors per op, final bytes, snapshots)
    snapshots: list of (op_index, write_index_in_op or None for 'after op', bytes)"""
    from gaddlemaps.parsers import GroFile
    ops = resolve_ops(ops)
    errs = []
    snaps = []
    with warnings.catch_warnings():
        warnings.simplefilter("ignore")
        g = GroFile(path, "w")
        state = {"op": -1, "w": 0}
        if snap:
            def cb(_s):
                snaps.append((state["op"], state["w"], read_bytes(path)))
                state["w"] += 1
            fa = file_attr(g)
            setattr(g, fa, SnapFile(getattr(g, fa), cb))
        for i, op in enumerate(ops):
            state["op"], state["w"] = i, 0
            try:
                apply_op(g, op)
                errs.append(None)
            except Exception as e:      # noqa: BLE001 - the class is the observable
                errs.append(type(e).__name__)
            if snap:
                try:
                    gfile(g).flush()
                except ValueError:
                    pass
                snaps.append((i, None, read_bytes(path)))
        try:
            gfile(g).close()
        except Exception:               # noqa: BLE001
            pass
    return errs, read_bytes(path), snaps


def run_abandoned(path, ops):
    """drive the real GroFile through `ops` (no close among them) and then ABANDON the writer: the last
    reference is dropped and the garbage collector runs — what happens to the object when the program
    moves on or unwinds after an error.  Returns the bytes then on disk.  (Seed C14-3: a finaliser that
    'helpfully' closes — i.e. completes — the file of an abandoned writer.)"""
    import gc
    from gaddlemaps.parsers import GroFile
    with warnings.catch_warnings():
        warnings.simplefilter("ignore")
        g = GroFile(path, "w")
        for op in ops:
            try:
                apply_op(g, op)
            except Exception:           # noqa: BLE001
                pass
        del g
        gc.collect()
    return read_bytes(path)


def read_back(path):
    """open with the real reader and read everything; exceptions mapped to class names"""
    from gaddlemaps.parsers import GroFile
    out = {}
    with warnings.catch_warnings():
        warnings.simplefilter("ignore")
        try:
            r = GroFile(path)
        except Exception as e:          # noqa: BLE001
            return {"open_err": type(e).__name__}
        try:
            out["title"] = r.comment
            out["natoms"] = r.natoms
            out["fmt"], out["vel"] = _fmt_of(r)
            out["box"] = [float(v) for v in r.box_matrix.ravel()]
            out["init"] = priv(r, "_init_position")
            out["size"] = priv(r, "_atomline_bytesize")
            try:
                out["recs"] = [tuple(x) for x in r.readlines()]
            except Exception as e:      # noqa: BLE001
                out["rerr"] = type(e).__name__
        finally:
            r.close()
    return out


def read_back_dispatch(path):
    """the same file through the entry point that chooses the parser by file extension, `open_coordinate_file(path)`.
    None when it refuses the file, else a short description.  (Seed C14-11: a
    lenient subclass of GroFile that inherits EXTENSIONS registers itself OVER GroFile in the parser table.)"""
    from gaddlemaps.parsers import open_coordinate_file
    with warnings.catch_warnings():
        warnings.simplefilter("ignore")
        try:
            r = open_coordinate_file(path)
            try:
                n = len(r.readlines())
            finally:
                r.close()
            return {"via": "open_coordinate_file", "records": n}
        except Exception:   # noqa: BLE001
            pass
        # ... and through a file object the CALLER opened (`GroFile(open(path))`): the same checks apply (seed C14-13: the
        # rejection re-raised only for files the constructor opened itself)
        fh = None
        try:
            from gaddlemaps.parsers import GroFile
            fh = open(path)
            r = GroFile(fh)
            n = len(r.readlines())
            return {"via": "GroFile(file object)", "records": n}
        except Exception:   # noqa: BLE001
            pass
        finally:
            try:
                if fh is not None:
                    fh.close()
            except Exception:   # noqa: BLE001
                pass
    return None     # (SystemGro / System / Manager open coordinate files through the same dispatch)


def _reader_header(r):
    bm = priv(r, "_box_matrix")
    return (priv(r, "_comment"), priv(r, "_natoms"), priv(r, "_init_position"), priv(r, "_atomline_bytesize"),
            _fmt_of(r), bm.tobytes() if bm is not MISSING else r.box_matrix.tobytes())


def run_reader(path, rops):
    """open with the real reader and apply a reader script; per op: (result, tell(), _current_atom), where result
    is ("U",) | ("L", line) | ("P", record) | ("E", exception class); plus whether any op changed a header
    attribute (comment, natoms, offsets, format, box)"""
    import numpy as np
    from gaddlemaps.parsers import GroFile
    with warnings.catch_warnings():
        warnings.simplefilter("ignore")
        try:
            r = GroFile(path)
        except Exception as e:          # noqa: BLE001
            return {"open_err": type(e).__name__}
        fmt_, vel_ = _fmt_of(r)
        out = {"title": r.comment, "natoms": r.natoms, "fmt": fmt_,
               "vel": vel_, "box": [float(v) for v in r.box_matrix.ravel()],
               "init": priv(r, "_init_position"), "size": priv(r, "_atomline_bytesize"), "results": [],
               "header_changed": []}
        hdr = _reader_header(r)
        try:
            for i, op in enumerate(rops):
                k = op[0]
                if k == "k":
                    def call(op=op):
                        r.seek_atom(int(op[1]))
                        return ("U",)
                elif k == "l":
                    def call(op=op):
                        v = r.readline(parsed=bool(op[1]))
                        return ("P", tuple(v)) if bool(op[1]) else ("L", v)
                elif k == "c":
                    def call(op=op):
                        r.comment = op[1]
                        return ("U",)
                elif k == "n":
                    def call(op=op):
                        r.natoms = int(op[1])
                        return ("U",)
                elif k == "f":
                    def call(op=op):
                        r.position_format = (int(op[1]), int(op[2]))
                        return ("U",)
                elif k == "b3":
                    def call(op=op):
                        r.box_matrix = np.array([float(v) for v in op[1]])
                        return ("U",)
                elif k == "b9":
                    def call(op=op):
                        r.box_matrix = np.array([[float(v) for v in row] for row in op[1]])
                        return ("U",)
                elif k == "bx":
                    def call(op=op):
                        r.box_matrix = np.zeros(tuple(int(v) for v in op[1]))
                        return ("U",)
                else:
                    raise ValueError(f"unknown reader op {op!r}")
                try:
                    res = call()
                except Exception as e:      # noqa: BLE001 - the class is the observable
                    res = ("E", type(e).__name__)
                out["results"].append((res, gfile(r).tell(), priv(r, "_current_atom")))
                if _reader_header(r) != hdr:
                    out["header_changed"].append(i)
                    hdr = _reader_header(r)
        finally:
            gfile(r).close()
    return out


def parse_rsession_response(status, toks):
    """decode `gro_rsession`: header as `gro_read`, then per op (result, pos, cur)"""
    if status == "err":
        return {"open_err": toks[0]}
    t = Toks(toks)
    out = {"title": t.bytes(), "natoms": t.int(), "init": t.int(), "size": t.int()}
    nfig = t.int()
    ndec = t.int()
    out["fmt"] = (nfig, ndec)
    out["vel"] = bool(t.int())
    out["box"] = t.box()
    res = []
    for _ in range(t.int()):
        k = t.next()
        if k == "U":
            v = ("U",)
        elif k == "L":
            v = ("L", t.bytes())
        elif k == "P":
            v = ("P", t.rrec())
        elif k == "E":
            v = ("E", t.next())
        else:
            raise ValueError("bad reader result kind " + k)
        res.append((v, t.int(), t.int()))
    out["results"] = res
    return out


PINNED_MTIME = 1_500_000_000


def pin_mtime(path):
    """every file the harness writes, rewrites or truncates gets the SAME modification time: a coarse-timestamp
    file system or an mtime-preserving restore does this to real files, and a reader must not take "same path, same
    mtime" for "same content" (seed C14-6: verified headers cached per (path, mtime))"""
    os.utime(path, (PINNED_MTIME, PINNED_MTIME))


def write_file(path, data: bytes):
    with open(path, "wb") as f:
        f.write(data)
    pin_mtime(path)


def modelled_text(data: bytes) -> bool:
    """the byte-list file model covers text without '\\r' (universal newlines are not modelled); bytes >= 128
    (encoded non-ASCII title characters) are covered when the interpreter's encoding is byte-modelled"""
    if 13 in data:
        return False
    return BYTE_MODELLED_ENCODING or all(b < 128 for b in data)


def parse_read_response(status, toks):
    """decode the `gro_read` response into the same shape as `read_back`"""
    if status == "err":
        return {"open_err": toks[0]}
    t = Toks(toks)
    out = {"title": t.bytes(), "natoms": t.int(), "init": t.int(), "size": t.int()}
    nfig = t.int()
    ndec = t.int()
    out["fmt"] = (nfig, ndec)
    out["vel"] = bool(t.int())
    out["box"] = t.box()
    k = t.next()
    if k == "rerr":
        out["rerr"] = t.next()
    else:
        n = t.int()
        out["recs"] = [t.rrec() for _ in range(n)]
    return out


def compare_read(impl: dict, model: dict):
    """None when equal, else a short description"""
    if ("open_err" in impl) or ("open_err" in model):
        return None if impl.get("open_err") == model.get("open_err") else "open error"
    try:        # the model's title is the raw (encoded) first line
        if text_bytes(impl["title"]).decode("latin-1") != model["title"]:
            return "title"
    except UnicodeEncodeError:
        return "title"
    for k in ("natoms", "init", "size", "fmt", "vel"):
        if impl[k] != model[k] and impl[k] is not MISSING:
            return k
    if not all(same_float(a, b) for a, b in zip(impl["box"], model["box"])):
        return "box"
    if impl.get("rerr") != model.get("rerr"):
        return "readlines error"
    if "recs" in impl:
        if len(impl["recs"]) != len(model["recs"]):
            return "record count"
        for a, b in zip(impl["recs"], model["recs"]):
            if not same_rec(a, b):
                return "record"
    return None


def shipped_gro_files():
    import gaddlemaps
    d = os.path.join(os.path.dirname(gaddlemaps.__file__), "data")
    out = []
    for root, _dirs, files in os.walk(os.path.dirname(gaddlemaps.__file__)):
        for f in sorted(files):
            if f.lower().endswith(".gro"):
                out.append(os.path.join(root, f))
    del d
    return sorted(out)
