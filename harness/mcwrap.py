"""harness.mcwrap — shared recorder for the Monte-Carlo search (C09) and the alignment (C06).

Observation is by wrapping, from Python and only for the duration of one call, the names the
library resolves at call time (no hook in /repo):

  gaddlemaps._backend.Chi2Calculator / accept_metropolis / move_mol_atom / rotation_matrix
  gaddlemaps._backend.check_backend_installed / _minimize_molecules / warnings   (the public wrapper's own steps)
  np.random.choice / normal / uniform / rand / randint      (recorders: call the real function,
                                                            append (kind, args, result) to the tape)
  np.mean                                                   (identity of the array whose centroid is taken)
  sys.stdout                                                (the loop prints on every new minimum)

`Recorder.events` is the program-order event stream; `parse_run` cuts it into the initialisation and
one record per loop iteration, following the grammar of `_minimize_molecules`.
"""
from __future__ import annotations

import io
import math
import sys
import warnings

import numpy as np
from .common import quiet as _quiet

from .common import fbits, v3

TOL = 1e-9


MAX_STORED_DISAGREEMENTS = 40


def _small(x, depth=0):
    """trim big values before they are stored with a disagreement"""
    if isinstance(x, np.ndarray):
        return _small(x.tolist(), depth)
    if isinstance(x, (list, tuple)):
        out = [_small(v, depth + 1) for v in list(x)[:6]]
        if len(x) > 6:
            out.append(f"... ({len(x)} items)")
        return out
    if isinstance(x, dict):
        return {k: _small(v, depth + 1) for k, v in x.items()}
    if isinstance(x, str) and len(x) > 300:
        return x[:300] + "..."
    return x


def disagree(ctx, case, what, impl, model):
    """ctx.disagree with a cap on what is kept in memory (a broken implementation disagrees at
    thousands of iterations; the first ones identify the problem)"""
    if len(ctx.disagreements) >= MAX_STORED_DISAGREEMENTS:
        ctx.count("disagreements-beyond-the-first-%d-not-stored" % MAX_STORED_DISAGREEMENTS)
        return
    ctx.disagree(case, what, _small(impl), _small(model))


class RunawayLoop(Exception):
    """raised from inside the wrapped accept_metropolis when the search has gone on for more than
    budget+1 consecutive iterations without a new lowest held measure (it should have stopped)"""


class GrammarError(Exception):
    """the event stream does not have the shape of `_minimize_molecules`"""


class _Stdout(io.TextIOBase):
    def __init__(self, rec):
        self.rec = rec

    def write(self, s):
        self.rec.events.append(("stdout", s))
        return len(s)

    def flush(self):
        pass


class Recorder:
    """context manager; everything observed goes to `self.events` in program order"""

    def __init__(self, budget=None):
        self.events = []
        self._saved = []
        self.budget = budget      # n_steps, when known in advance (else taken from minimize_molecules' call)
        self._best = None
        self._since = 0

    # -- patch helpers
    def _patch(self, obj, name, new):
        self._saved.append((obj, name, getattr(obj, name)))
        setattr(obj, name, new)

    def __enter__(self):
        import gaddlemaps._backend as B
        ev = self.events
        rec = self
        real_chi2 = B.Chi2Calculator
        real_accept = B.accept_metropolis
        real_move = B.move_mol_atom
        real_rot = B.rotation_matrix
        rnd = np.random
        real = {k: getattr(rnd, k) for k in ("choice", "normal", "uniform", "rand", "randint")}
        real_mean = np.mean

        class Chi2Wrap:
            def __init__(self, mol1, mol2, restrictions=None):
                self._real = real_chi2(mol1, mol2, restrictions)
                ev.append(("chi2_new", mol1, np.array(mol1, dtype=float, copy=True), mol2,
                           [tuple(int(x) for x in r) for r in (restrictions if restrictions is not None else [])]))

            def __call__(self, mol2):
                snap = np.array(mol2, dtype=float, copy=True)
                val = self._real(mol2)
                ev.append(("chi2", mol2, snap, val))
                if rec._best is None:
                    rec._best = val
                return val

        def accept(energy_0, energy_1, *a, **k):
            ev.append(("accept_begin",))
            r = real_accept(energy_0, energy_1, *a, **k)
            ev.append(("accept", energy_0, energy_1, r))
            if r and rec._best is not None and energy_1 < rec._best:
                rec._best = energy_1
                rec._since = 0
            else:
                rec._since += 1
                if rec.budget is not None and rec._since > max(0, int(rec.budget)) + 1:
                    raise RunawayLoop(f"{rec._since} consecutive iterations without a new lowest measure, "
                                      f"budget {rec.budget}")
            return r

        def move(atoms_pos, bonds_info, *a, **k):
            ev.append(("move_begin",))
            snap = np.array(atoms_pos, dtype=float, copy=True)
            r = real_move(atoms_pos, bonds_info, *a, **k)
            ev.append(("move", atoms_pos, snap, bonds_info, (a, dict(k)), r))
            return r

        def rot(axis, theta):
            r = real_rot(axis, theta)
            ev.append(("rotmat", np.array(axis, dtype=float, copy=True), float(theta), np.array(r, copy=True)))
            return r

        def mk(kind):
            f = real[kind]

            def g(*a, **k):
                r = f(*a, **k)
                ev.append(("draw", kind, a, dict(k), r if np.isscalar(r) else np.array(r, copy=True)))
                return r
            return g

        def mean(a, *args, **kw):
            ev.append(("mean", a))
            return real_mean(a, *args, **kw)

        import gaddlemaps._alignment as A
        real_min = A.minimize_molecules

        def minimize(mol1_positions, mol2_positions, mol2_com, sigma_scale, n_steps, restriction,
                     mol2_bonds_info, displacement_module, sim_type):
            if rec.budget is None:
                rec.budget = n_steps
            ev.append(("minimize_call", {
                "mol1": np.array(mol1_positions, dtype=float, copy=True),
                "mol2": np.array(mol2_positions, dtype=float, copy=True),
                "sigma": sigma_scale, "n_steps": n_steps,
                "restr": [tuple(int(x) for x in r) for r in restriction],
                "bonds_info": {int(k): [(int(j), float(d)) for j, d in v] for k, v in mol2_bonds_info.items()},
                "width": displacement_module, "sim_type": sim_type}))
            r = real_min(mol1_positions, mol2_positions, mol2_com, sigma_scale, n_steps, restriction,
                         mol2_bonds_info, displacement_module, sim_type)
            ev.append(("minimize_ret", r))
            return r

        real_check = B.check_backend_installed
        real_engine = B._minimize_molecules

        def check(*a, **k):
            r = real_check(*a, **k)
            ev.append(("backend_check", a, dict(k), bool(r)))
            return r

        def engine(*a, **k):
            ev.append(("engine_call", len(a), sorted(k)))
            return real_engine(*a, **k)

        class _Warnings:
            """stands in for the `warnings` module inside gaddlemaps._backend: every `warnings.warn` of the module is
            an event (and is not shown)"""

            def __getattr__(self, name):
                return getattr(warnings, name)

            def warn(self, message, *a, **k):
                ev.append(("warning", str(message)))

        self._patch(A, "minimize_molecules", minimize)
        self._patch(B, "check_backend_installed", check)
        self._patch(B, "_minimize_molecules", engine)
        self._patch(B, "warnings", _Warnings())
        self._patch(B, "Chi2Calculator", Chi2Wrap)
        self._patch(B, "accept_metropolis", accept)
        self._patch(B, "move_mol_atom", move)
        self._patch(B, "rotation_matrix", rot)
        for kname in real:
            self._patch(rnd, kname, mk(kname))
        self._patch(np, "mean", mean)
        self._patch(sys, "stdout", _Stdout(self))
        self._warn = warnings.catch_warnings()
        self._warn.__enter__()
        warnings.simplefilter("ignore")
        self._err = _quiet()
        self._err.__enter__()
        return self

    def __exit__(self, *exc):
        self._err.__exit__(*exc)
        self._warn.__exit__(*exc)
        for obj, name, old in reversed(self._saved):
            setattr(obj, name, old)
        self._saved = []
        return False


# ----------------------------------------------------------------------------- tape tokens

def draw_token(ev):
    """('draw', kind, args, kwargs, result) -> protocol token string, or None if not modelled"""
    _, kind, a, k, r = ev
    if kind == "choice":
        return f"c {int(r)}"
    if kind == "randint":
        return f"i {int(r)}"
    arr = np.asarray(r, dtype=float)
    if kind == "normal":
        if arr.shape == ():
            return f"n1 {fbits(arr)}"
        if arr.shape == (3,):
            return f"n3 {v3(arr)}"
    if kind == "uniform" and arr.shape == (3,):
        return f"u3 {v3(arr)}"
    if kind == "rand":
        if arr.shape == ():
            return f"r1 {fbits(arr)}"
        if arr.shape == (3,):
            return f"r3 {v3(arr)}"
    return None


def cfg_tokens(c) -> str:
    c = np.asarray(c, dtype=float)
    return " ".join([str(len(c))] + [v3(p) for p in c])


def tape_tokens(draws) -> str:
    toks = [draw_token(d) for d in draws]
    if any(t is None for t in toks):
        raise GrammarError("draw of a shape the model has no token for")
    return " ".join([str(len(toks))] + toks)


# ----------------------------------------------------------------------------- event grammar

class Step:
    __slots__ = ("change", "draws", "prop_draws", "move", "test", "test_snap", "chi2_new", "e0", "e1",
                 "accepted", "accept_draws", "newmin", "src_obj", "rot", "printed")


class Run:
    """one call of `_minimize_molecules`, cut into steps"""

    def __init__(self):
        self.fixed = None       # mol1 array handed to Chi2Calculator (snapshot)
        self.mobile0_obj = None
        self.restr = None
        self.chi2_0 = None
        self.held0_obj = None
        self.held0_snap = None
        self.steps = []
        self.inferred = False   # True when accept decisions had to be inferred (no accept_metropolis events)
        self.tail = []          # events after the last iteration (the final print)


def parse_run(events, start=0):
    """parse events[start:] as one `_minimize_molecules` call. Returns (Run, next index)."""
    i = start
    n = len(events)

    def need(kind):
        nonlocal i
        # np.mean calls are an implementation detail (where the centroid is taken): not part of the grammar
        while kind != "mean" and i < n and events[i][0] == "mean":
            i += 1
        if i >= n or events[i][0] != kind:
            got = events[i][0] if i < n else "end"
            raise GrammarError(f"expected {kind}, got {got} at event {i}")
        e = events[i]
        i += 1
        return e

    run = Run()
    e = need("chi2_new")
    run.fixed, run.mobile0_obj, run.restr = e[2], e[3], e[4]
    e = need("chi2")
    run.held0_obj, run.held0_snap, run.chi2_0 = e[1], e[2], e[3]
    while i < n and events[i][0] == "draw" and events[i][1] == "choice":
        st = Step()
        st.draws = []
        st.move = None
        st.rot = None
        st.src_obj = None
        ch = need("draw")
        st.draws.append(ch)
        st.change = int(ch[4])
        if st.change == 0:
            d = need("draw")
            if d[1] != "normal":
                raise GrammarError("translation: expected normal")
            st.draws.append(d)
        elif st.change == 1:
            # the centroid is normally taken here with np.mean(held); a loop that obtains it differently
            # (tracks it, seed C09-1) is still parsed, and the oracle decides whether the proposal is a
            # rotation about the centroid of the held configuration
            if i < n and events[i][0] == "mean":
                m = need("mean")
                st.src_obj = m[1]
            else:
                st.src_obj = None
            u = need("draw")
            t = need("draw")
            if u[1] != "uniform" or t[1] != "normal":
                raise GrammarError("rotation: expected uniform, normal")
            st.draws += [u, t]
            st.rot = need("rotmat")
        elif st.change == 2:
            need("move_begin")
            inner = []
            while i < n and events[i][0] == "draw":
                inner.append(events[i])
                i += 1
            mv = need("move")
            st.draws += inner
            st.src_obj = mv[1]
            st.move = (mv, inner)
        else:
            raise GrammarError(f"change={st.change}")
        st.prop_draws = list(st.draws)
        c = need("chi2")
        st.test, st.test_snap, st.chi2_new = c[1], c[2], c[3]
        if i < n and events[i][0] == "accept_begin":
            need("accept_begin")
            st.accept_draws = []
            while i < n and events[i][0] == "draw":
                st.accept_draws.append(events[i])
                i += 1
            a = need("accept")
            st.e0, st.e1, st.accepted = a[1], a[2], bool(a[3])
        else:
            # the loop did not go through the module-level `accept_metropolis` (decision inlined — seed C09-5):
            # the scalar `rand` draws that follow belong to the decision; the decision itself and the measure it
            # was judged against are INFERRED by the oracle from what the loop does next (`oracle_run`)
            st.accept_draws = []
            while i < n and events[i][0] == "draw" and events[i][1] == "rand" and np.ndim(events[i][4]) == 0:
                st.accept_draws.append(events[i])
                i += 1
            st.e0, st.e1, st.accepted = None, st.chi2_new, None
            run.inferred = True
        st.draws += st.accept_draws
        st.printed = []
        while i < n and events[i][0] == "stdout" and events[i][1] != "\n":
            st.printed.append(events[i][1])
            i += 1
        st.newmin = any("Chi2" in p for p in st.printed)
        run.steps.append(st)
    while i < n and events[i][0] == "stdout":
        run.tail.append(events[i][1])
        i += 1
    return run, i


# ----------------------------------------------------------------------------- reconstruction

def reconstruct(run, ret):
    """pre-states of every iteration from what was OBSERVED on the implementation:
    held_k   = the array object that is held according to the implementation's own accept returns
    chi2_k   = energy_0 the implementation passed to accept_metropolis (its `chi2` variable)
    chi2min_k, counter_k = from the new-minimum prints (the only externally visible trace)
    Returns list of dicts (one per iteration) + the final state."""
    held = run.held0_snap
    held_obj = run.held0_obj
    chi2min = run.chi2_0
    counter = 0
    states = []
    for st in run.steps:
        states.append({"held": held, "held_obj": held_obj, "chi2": st.e0, "chi2min": chi2min, "counter": counter})
        if st.accepted:
            held, held_obj = st.test_snap, st.test
        if st.newmin:
            chi2min = st.chi2_new
            counter = 0
        else:
            counter += 1
    last_chi2 = (run.steps[-1].chi2_new if run.steps[-1].accepted else run.steps[-1].e0) if run.steps else run.chi2_0
    final = {"held": held, "held_obj": held_obj, "chi2": last_chi2, "chi2min": chi2min, "counter": counter}
    return states, final


def move_entry(st):
    """(randint value, normal bits, result) of a type-2 step, as protocol tokens"""
    mv, inner = st.move
    ridx = [d for d in inner if d[1] == "randint"]
    rn = [d for d in inner if d[1] == "normal"]
    if len(ridx) != 1 or len(rn) != 1 or len(inner) != 3:
        raise GrammarError("move_mol_atom: unexpected draws " + ",".join(d[1] for d in inner))
    return f"{int(ridx[0][4])} {fbits(rn[0][4])} {cfg_tokens(mv[5])}"


def step_request(st, pre, n_steps, sim_type):
    moves = [move_entry(st)] if st.move else []
    toks = [cfg_tokens(pre["held"]), fbits(pre["chi2"]), fbits(pre["chi2min"]), str(pre["counter"]),
            str(max(0, int(n_steps))), " ".join([str(len(sim_type))] + [str(int(s)) for s in sim_type]),
            tape_tokens(st.draws),
            " ".join([str(len(moves))] + moves),
            "1 " + cfg_tokens(st.test_snap) + " " + fbits(st.chi2_new)]
    return " ".join(toks)


def run_request(run, n_steps, sim_type):
    draws = [d for st in run.steps for d in st.draws]
    moves = [move_entry(st) for st in run.steps if st.move]
    chis = [cfg_tokens(run.held0_snap) + " " + fbits(run.chi2_0)]
    chis += [cfg_tokens(st.test_snap) + " " + fbits(st.chi2_new) for st in run.steps]
    toks = [cfg_tokens(run.held0_snap), str(max(0, int(n_steps))),
            " ".join([str(len(sim_type))] + [str(int(s)) for s in sim_type]),
            tape_tokens(draws), " ".join([str(len(moves))] + moves), " ".join([str(len(chis))] + chis)]
    return " ".join(toks)


class Reader:
    """sequential reader of a driver response"""

    def __init__(self, toks):
        self.t = list(toks)
        self.i = 0

    def tok(self):
        v = self.t[self.i]
        self.i += 1
        return v

    def int(self):
        return int(self.tok())

    def float(self):
        from .common import unfbits
        return unfbits(self.tok())

    def fbits(self):
        return self.tok()

    def cfg(self):
        n = self.int()
        return np.array([[self.float() for _ in range(3)] for _ in range(n)]).reshape(n, 3)

    def state(self):
        return {"held": self.cfg(), "chi2": self.fbits(), "chi2min": self.fbits(), "counter": self.int()}


def same_bits(a, b) -> bool:
    a = np.array(a, dtype=float)
    b = np.array(b, dtype=float)
    if a.shape != b.shape:
        return False
    # every NaN is the same observation (sign and payload of a NaN are not defined by the arithmetic)
    a[np.isnan(a)] = np.nan
    b[np.isnan(b)] = np.nan
    return np.ascontiguousarray(a).tobytes() == np.ascontiguousarray(b).tobytes()


def close_cfg(a, b, tol=TOL) -> bool:
    a = np.asarray(a, dtype=float)
    b = np.asarray(b, dtype=float)
    if a.shape != b.shape:
        return False
    if a.size == 0:
        return True
    fa, fb = np.isfinite(a), np.isfinite(b)
    if not (fa == fb).all():
        return False
    if not fa.all():
        # non-finite entries must agree in kind
        if not all((math.isnan(x) and math.isnan(y)) or x == y for x, y in zip(a[~fa], b[~fb])):
            return False
    d = np.abs(a[fa] - b[fb])
    m = np.maximum(1.0, np.maximum(np.abs(a[fa]), np.abs(b[fb])))
    return bool((d <= tol * m).all())


def accept_margin(e0, e1, u):
    """relative margin of the accept decision (for numeric_near_tie)"""
    with _quiet():
        f = np.float64(e0) / np.float64(e1)
        if f >= 1 or u is None:
            return abs(float(f) - 1.0)
        return abs(float(u) - 0.01 * float(f)) / max(abs(float(u)), 1e-300)


# ----------------------------------------------------------------------------- transition-level check

def check_run(ctx, case, run, ret, n_steps, sim_type, tag="mc", whole_limit=4000):
    if getattr(run, "inferred", False):
        # no accept_metropolis events to hang the transitions on: the loop's structure differs from the modelled one
        disagree(ctx, case, f"{tag}: the search does not call accept_metropolis (decisions inferred by the oracle)",
                 "inlined", "accept_metropolis(chi2, chi2_new)")
        return
    return _check_run(ctx, case, run, ret, n_steps, sim_type, tag, whole_limit)


def _check_run(ctx, case, run, ret, n_steps, sim_type, tag="mc", whole_limit=4000):
    """queue the transition-level correspondence (DESIGN §2.3) for one recorded search:
    every iteration is recomputed by the driver from the implementation's own pre-state."""
    from .common import unfbits
    sim_type = [int(s) for s in sim_type]
    if ctx.budget_scale > 1.0:
        # extended search after a disagreement: only the oracle looks for a failing input
        ctx.count(f"{tag}:model-skipped-in-extended-search")
        return
    states, final = reconstruct(run, ret)
    K = len(run.steps)
    ctx.count(f"{tag}:runs")
    ctx.count(f"{tag}:iterations", K)

    # initialisation
    def cb_init(status, toks, case):
        r = Reader(toks)
        s = r.state()
        first = states[0] if states else final
        if (status != "ok" or not same_bits(s["held"], run.held0_snap) or s["chi2"] != fbits(run.chi2_0)
                or s["chi2min"] != fbits(run.chi2_0) or s["counter"] != 0 or s["chi2"] != fbits(first["chi2"])):
            disagree(ctx, case, f"{tag}: initial state", {"chi2_0": run.chi2_0, "first_e0": first["chi2"]}, toks[:8])
    ctx.model.ask("mc_init", cfg_tokens(run.held0_snap) + " " + fbits(run.chi2_0), cb_init, case)

    for k, st in enumerate(run.steps):
        pre = states[k]
        post = states[k + 1] if k + 1 < K else final
        last = k == K - 1
        try:
            req = step_request(st, pre, n_steps, sim_type)
        except GrammarError as e:
            disagree(ctx, case, f"{tag}: step {k} cannot be encoded: {e}", None, None)
            continue

        def cb(status, toks, case, st=st, pre=pre, post=post, last=last, k=k):
            def bad(what, impl, model):
                disagree(ctx, case, f"{tag}: step {k} (kind {st.change}): {what}", impl, model)
            if status != "ok":
                bad("model error", "ok", toks)
                return
            r = Reader(toks)
            cont_pre = r.int()
            kind = r.int()
            test = r.cfg()
            chi2new = r.fbits()
            acc = bool(r.int())
            ps = r.state()
            cont_post = r.int()
            leftover = r.int()
            defined = r.int()
            if cont_pre != 1:
                bad("implementation iterated although the model's loop test is false",
                    {"counter": pre["counter"], "n_steps": n_steps}, "exit")
            if kind != st.change:
                bad("proposal kind", st.change, kind)
            exact = st.change in (0, 2)
            if exact and not same_bits(test, st.test_snap):
                bad("proposal (bit-exact expected)", st.test_snap, test)
            elif not exact and not close_cfg(test, st.test_snap):
                bad("proposal (1e-9)", st.test_snap, test)
            if chi2new != fbits(st.chi2_new):
                bad("chi2_new", st.chi2_new, unfbits(chi2new))
            if leftover != 0:
                bad("draws not consumed exactly", len(st.draws), leftover)
            if acc != st.accepted:
                u = float(st.accept_draws[0][4]) if st.accept_draws else None
                if accept_margin(st.e0, st.e1, u) < 1e-12:
                    ctx.near_ties += 1
                else:
                    bad("accept decision", st.accepted, acc)
                return
            ok_held = same_bits(ps["held"], post["held"]) if (exact or not acc) else close_cfg(ps["held"], post["held"])
            if not ok_held:
                bad("successor held configuration", post["held"], ps["held"])
            if ps["chi2"] != fbits(post["chi2"]):
                bad("successor chi2", post["chi2"], unfbits(ps["chi2"]))
            if ps["chi2min"] != fbits(post["chi2min"]):
                bad("successor chi2_min", post["chi2min"], unfbits(ps["chi2min"]))
            if ps["counter"] != post["counter"]:
                bad("successor counter", post["counter"], ps["counter"])
            if bool(cont_post) == last:
                bad("loop exit", "returned" if last else "continued", "continue" if cont_post else "exit")
            fin = bool(np.isfinite(st.test_snap).all() and math.isfinite(float(st.chi2_new)))
            if bool(defined) and not fin and st.change == 2:
                # the proposal of an atom move is the implementation's own move_mol_atom output (an input of
                # this transition): its definedness is C07's (`displ_defined`, `move_defined`), e.g. a hub whose
                # neighbours are collinear; here only "a non-finite proposal is never accepted" matters
                ctx.count(f"{tag}:atom-move-proposal-not-finite(C07 hypotheses fail)")
                if st.accepted:
                    bad("non-finite atom-move proposal accepted", st.accepted, False)
            elif bool(defined) and not fin:
                bad("model says all divisors non-zero but the implementation's values are not finite", fin, defined)
            if not defined:
                ctx.count(f"{tag}:undefined-step")
        ctx.model.ask("mc_step", req, cb, case)

    # exit / return value
    if ret is not None:
        if not same_bits(ret, final["held"]):
            disagree(ctx, case, f"{tag}: returned array is not the held configuration of the exit state",
                         ret, final["held"])
    if not states and max(0, int(n_steps)) > 0:
        disagree(ctx, case, f"{tag}: no iteration although n_steps > 0", 0, n_steps)

    # whole run through the model's mcLoop (tables as chi2Fn / moveFn)
    if K <= whole_limit:
        try:
            req = run_request(run, n_steps, sim_type)
        except GrammarError as e:
            disagree(ctx, case, f"{tag}: run cannot be encoded: {e}", None, None)
            return

        def cbr(status, toks, case):
            if status != "ok":
                disagree(ctx, case, f"{tag}: whole run: model error", "ok", toks)
                return
            r = Reader(toks)
            nst = r.int()
            acc = r.tok()[1:]
            kinds = r.tok()[1:]
            fs = r.state()
            rcfg = r.cfg()
            leftover = r.int()
            iacc = "".join("1" if s.accepted else "0" for s in run.steps)
            ikinds = "".join(str(s.change) for s in run.steps)
            if nst != K or acc != iacc or kinds != ikinds:
                disagree(ctx, case, f"{tag}: whole run: step count / decisions / kinds",
                             {"steps": K, "accept": iacc[:200], "kinds": ikinds[:200]},
                             {"steps": nst, "accept": acc[:200], "kinds": kinds[:200]})
                return
            if leftover != 0:
                disagree(ctx, case, f"{tag}: whole run: tape not consumed exactly", 0, leftover)
            if not close_cfg(rcfg, final["held"]) or not close_cfg(fs["held"], final["held"]):
                disagree(ctx, case, f"{tag}: whole run: returned configuration", final["held"], rcfg)
            if fs["chi2"] != fbits(final["chi2"]) or fs["chi2min"] != fbits(final["chi2min"]) \
                    or fs["counter"] != final["counter"]:
                disagree(ctx, case, f"{tag}: whole run: final state",
                             {k: final[k] for k in ("chi2", "chi2min", "counter")},
                             {"chi2": unfbits(fs["chi2"]), "chi2min": unfbits(fs["chi2min"]), "counter": fs["counter"]})
        ctx.count(f"{tag}:whole-run-replays")
        ctx.model.ask("mc_run", req, cbr, case)
    else:
        ctx.count(f"{tag}:whole-run-skipped(>{whole_limit} steps)")


# ----------------------------------------------------------------------------- property oracle (C09 clauses)

def oracle_run(ctx, case, run, ret, n_steps, sim_type, held0, keyprefix="search", report=True):
    """the clauses of C09 evaluated directly on what the implementation did (no model involved).
    `report=False` (used by C06, whose statement does not contain these clauses): only the branch
    counters are taken."""
    sim_type = [int(s) for s in sim_type]
    n_steps = max(0, int(n_steps))
    fails = {}

    def fail(key, detail):
        fails.setdefault(key, detail)

    held_obj = run.held0_obj
    held = run.held0_snap
    held_chi2 = run.chi2_0
    if not same_bits(held, held0):
        fail("initial-config", "objective first evaluated on something else than the input configuration")
    best = float(run.chi2_0)
    since = 0          # consecutive steps without a new lowest measure
    stopped_at = None
    for k, st in enumerate(run.steps):
        if st.accepted is None:
            # infer the decision: the NEXT proposal (or the returned array, after the last step) is built either
            # from this proposal (accepted) or from the configuration held before (rejected)
            T_ = st.test_snap
            nxt = run.steps[k + 1] if k + 1 < len(run.steps) else None
            a = r = False
            if nxt is None:
                a = ret is not None and same_bits(ret, T_)
                r = ret is not None and same_bits(ret, held)
            elif nxt.change == 0:
                d_ = np.asarray(nxt.prop_draws[1][4], dtype=float)
                a, r = same_bits(nxt.test_snap, T_ + d_), same_bits(nxt.test_snap, held + d_)
            elif nxt.change == 2:
                a, r = same_bits(nxt.move[0][2], T_), same_bits(nxt.move[0][2], held)
            elif nxt.change == 1 and nxt.rot is not None and np.isfinite(nxt.rot[3]).all():
                R_ = nxt.rot[3]
                a = close_cfg(nxt.test_snap, (T_ - T_.mean(axis=0)) @ R_ + T_.mean(axis=0))
                r = close_cfg(nxt.test_snap, (held - held.mean(axis=0)) @ R_ + held.mean(axis=0))
            if a and not r:
                st.accepted = True
            elif r and not a:
                st.accepted = False
            else:
                st.accepted = bool(float(st.chi2_new) <= float(held_chi2))   # indistinguishable / unknown source
                ctx.count("inferred-decision:ambiguous")
            st.e0 = held_chi2
            ctx.count("inferred-decision")
        if since >= n_steps and stopped_at is None:
            stopped_at = k
            fail("stop-late", {"step": k, "n_steps": n_steps})
        # judged against the measure of the configuration currently held
        if fbits(st.e0) != fbits(held_chi2):
            fail("judged-against-other-measure", {"step": k, "e0": st.e0, "held_measure": held_chi2})
        if fbits(st.e1) != fbits(st.chi2_new):
            fail("proposal-measure", {"step": k})
        # the decision
        e0, e1 = float(st.e0), float(st.e1)
        if e1 == 0.0 or math.isnan(e0) or math.isnan(e1):
            ctx.count("O1:zero-or-nan-measure-step")
            if e0 == 0.0 and e1 == 0.0:
                ctx.count("O1:0/0-" + ("accepted" if st.accepted else "rejected"))
        elif e1 <= e0:
            if not st.accepted:
                fail("downhill-rejected", {"step": k, "e0": e0, "e1": e1})
            if st.accept_draws:
                fail("downhill-consumed-draw", {"step": k})
            ctx.count("branch:downhill" + ("-equal" if e1 == e0 else ""))
        else:
            rd = [d for d in st.accept_draws if d[1] == "rand" and np.ndim(d[4]) == 0]
            if len(st.accept_draws) != 1 or len(rd) != 1:
                fail("uphill-draw-count", {"step": k, "draws": len(st.accept_draws)})
            else:
                u = float(rd[0][4])
                thr = 0.01 * e0 / e1
                if abs(u - thr) > 1e-12 * max(abs(thr), 1e-300) and (u <= thr) != st.accepted:
                    fail("uphill-decision", {"step": k, "u": u, "threshold": thr, "accepted": st.accepted})
            ctx.count("branch:uphill-" + ("accepted" if st.accepted else "rejected"))
        # the measure the loop used for this proposal IS the overlap measure of that configuration: a calculator built
        # afresh from the same fixed coordinates and restraints gives the same number (sampled: every ~1/8 of the run;
        # seed C09-8: a calculator whose "covered atoms" set only grows makes the search's energies history dependent)
        if report and k % max(1, len(run.steps) // 8) == 0 and run.fixed is not None and run.mobile0_obj is not None:
            try:
                import gaddlemaps._backend as _B
                with _quiet():
                    fresh = float(_B.Chi2Calculator(np.array(run.fixed, dtype=float), np.array(run.mobile0_obj, dtype=float),
                                                    run.restr)(np.array(st.test_snap, dtype=float)))
                used = float(st.chi2_new)
                ctx.count("fresh-calculator-cross-checks")
                if not (math.isnan(fresh) and math.isnan(used)) and abs(fresh - used) > 1e-9 * max(1.0, abs(fresh)):
                    fail("measure-differs-from-a-fresh-calculator", {"step": k, "used": used, "fresh": fresh})
            except Exception:   # noqa: BLE001  (malformed restraint lists etc.: the case's own error is reported elsewhere)
                pass
        # the proposal
        if st.change not in sim_type:
            fail("kind-not-enabled", {"step": k, "kind": st.change})
        T = st.test_snap
        if st.change == 0:
            d = np.asarray(st.prop_draws[1][4], dtype=float)
            if not same_bits(T, held + d):
                fail("translation-not-of-held", {"step": k})
        elif st.change == 1:
            if st.src_obj is not None and st.src_obj is not held_obj and not same_bits(np.asarray(st.src_obj), held):
                fail("rotation-centroid-not-of-held", {"step": k})
            c = held.mean(axis=0)
            R = st.rot[3]
            if np.isfinite(R).all():
                if abs(R @ R.T - np.eye(3)).max() > TOL or abs(np.linalg.det(R) - 1) > TOL:
                    fail("rotation-matrix-improper", {"step": k})
                if not close_cfg(T, (held - c) @ R + c):
                    fail("rotation-not-about-centroid-of-held", {"step": k})
                sc = max(1.0, float(np.abs(held).max()))
                if abs(T.mean(axis=0) - c).max() > TOL * sc:
                    fail("rotation-moves-centroid", {"step": k})
        elif st.change == 2:
            mv = st.move[0]
            if mv[1] is not held_obj and not same_bits(mv[2], held):
                fail("atom-move-not-of-held", {"step": k})
            if not same_bits(mv[5], T):
                fail("atom-move-result-not-proposed", {"step": k})
        ctx.count(f"kind:{st.change}")
        # bookkeeping as the property states it
        if st.accepted:
            held_obj, held, held_chi2 = st.test, st.test_snap, st.chi2_new
        if st.accepted and float(st.chi2_new) < best:
            best = float(st.chi2_new)
            since = 0
            ctx.count("branch:new-minimum")
            if not st.newmin:
                fail("new-minimum-not-announced", {"step": k})
        else:
            since += 1
            if st.newmin:
                fail("announced-minimum-is-not-one", {"step": k})
    if run.steps or n_steps == 0:
        if since < n_steps:
            fail("stop-early", {"steps": len(run.steps), "since_last_minimum": since, "n_steps": n_steps})
        else:
            ctx.count("branch:exit")
    if ret is not None:
        if not same_bits(ret, held):
            fail("returned-not-last-accepted", {"ret_is_last_proposal": bool(run.steps) and same_bits(ret, run.steps[-1].test_snap)})
        if not np.isfinite(np.asarray(ret, dtype=float)).all():
            fail("returned-non-finite", None)
    if report:
        ctx.oracle_ok(8)
        for key, detail in fails.items():
            ctx.oracle_fail(f"{keyprefix}:{key}", case, detail)
    return not fails
