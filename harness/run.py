"""harness.run — entry point: python -m harness.run <ID> <quick|thorough> [--replay file]"""
from __future__ import annotations

import importlib
import json
import os
import shutil
import signal
import sys
import tempfile
import traceback

from . import common
from .common import Ctx, GateError


def _timeout(signum, frame):
    raise TimeoutError("check exceeded its time limit")


def main(argv):
    if len(argv) < 2:
        print("usage: check <ID> <quick|thorough> [--replay file]")
        return 2
    pid, tier = argv[0].upper(), argv[1]
    replay = None
    if "--replay" in argv:
        replay = argv[argv.index("--replay") + 1]
    seed = int(os.environ.get("VERIF_SEED", "0") or 0)
    tier = os.environ.get("VERIF_TIER", tier) if tier not in ("quick", "thorough") else tier
    limit = int(os.environ.get("VERIF_TIME_LIMIT", "900" if tier == "quick" else "7200"))
    signal.signal(signal.SIGALRM, _timeout)
    signal.alarm(limit)
    ctx = Ctx(pid, tier, seed)
    scratch = tempfile.mkdtemp(prefix=f"gmverif-{pid}-")
    ctx.scratch = scratch
    try:
        mod = importlib.import_module(f"harness.props.{pid.lower()}")
        ctx.rule = getattr(mod, "RULE", "")
        common.run_gate(ctx)
        if not replay:
            common.source_drift(ctx)
        if not common.DRIVER.exists():
            raise GateError("gmdriver not built: " + ctx.gate.get("build_log", ""))

        def drive(cases):
            for c in cases:
                mod.evaluate(ctx, c)
                if len(ctx.model.queue) >= 20000:
                    ctx.model.flush(ctx)
            ctx.model.flush(ctx)

        if replay:
            doc = json.loads(open(replay).read())
            cases = [doc["case"]] if "case" in doc else [d["case"] for d in doc.get("disagreements", [])]
            drive(cases)
        else:
            drive(common.corpus_cases(pid))
            drive(mod.generate(ctx))

        def extended():
            # disagreeing inputs first (already evaluated), then 10x budget, then edge streams
            ctx.budget_scale = max(10.0, ctx.budget_scale)
            ctx.rng.seed(f"{pid}-{seed}-extended")
            drive(mod.generate(ctx))

        common.summary(ctx)
        rc = common.finish(ctx, extended_search=None if replay else extended)
        return rc
    except TimeoutError as e:
        print(f"ERROR {pid}: {e}", file=sys.stderr)
        return 2
    except Exception:
        traceback.print_exc()
        print(f"ERROR {pid}: internal error (exit 2, not a verdict)", file=sys.stderr)
        return 2
    finally:
        signal.alarm(0)
        shutil.rmtree(scratch, ignore_errors=True)


if __name__ == "__main__":
    sys.exit(main(sys.argv[1:]))
