"""harness.molgen — generators for molecule / system files (.itp / .gro) used by the checks that drive
gaddlemaps through its public loaders (`Molecule.from_files`, `System`, `Manager`).

A *molecule spec* is a JSON-serialisable dict (so it can live inside a case / replay):

    {"name": "MOLA",
     "atoms":  [[resnr, resname, atomname], ...],     # order = atom order
     "bonds":  [[a, b], ...],                         # 0-based atom indices
     "coords": [[x, y, z], ...]}                      # integers, thousandths of a nm (exact in %8.3f)

All randomness comes from the `rng` handed in (ctx.rng).
"""
from __future__ import annotations

import os

HEAVY = ["C", "C1", "CA", "CB2", "N", "N1", "O", "O2", "OH", "P", "S1", "CH3", "He", "HA", "HB1", "Hg",
         "h", "h1", "Na", "CL", "NH1", "OH2", "HO", "1HA", "C_H", "1C1"]
HYDRO = ["H", "H1", "H12", "1H", "2H3", "12H", "H_", "_H", "H-1", "3H1", "H+", "1H_C"]
NOALPHA = ["1", "12", "1_2", "+"]
RESNAMES = ["ALA", "GLY", "SER", "LYS", "AL", "GL", "LY", "ALAN", "SE", "VAL", "W"]


def gen_coords(rng, n, span=4000):
    """n points with pairwise distinct x, y and z (so any two atoms differ in every coordinate)"""
    xs = rng.sample(range(span), n)
    ys = rng.sample(range(span), n)
    zs = rng.sample(range(span), n)
    return [[xs[k], ys[k], zs[k]] for k in range(n)]


def gen_bonds(rng, n, connected=True, extra=0.15):
    """a connected bond graph on n atoms: random recursive tree (+ a few extra edges);
    `connected=False` cuts it into two components (n >= 2)"""
    bonds = []
    style = rng.random()
    for k in range(1, n):
        if style < 0.3:
            p = k - 1                       # path
        elif style < 0.4:
            p = 0                           # star
        else:
            p = rng.randrange(k)
        bonds.append([p, k])
    have = {tuple(b) for b in bonds}
    for _ in range(int(extra * n)):
        a, b = rng.randrange(n), rng.randrange(n)
        if a != b and (min(a, b), max(a, b)) not in have:
            have.add((min(a, b), max(a, b)))
            bonds.append([min(a, b), max(a, b)])
    if not connected and n >= 2:
        cut = rng.randrange(1, n)           # atoms < cut and >= cut become separate components
        bonds = [b for b in bonds if (b[0] < cut) == (b[1] < cut)]
    rng.shuffle(bonds)
    return bonds


def gen_atom_names(rng, n, hfrac, noalpha=0.0):
    names = []
    for _ in range(n):
        r = rng.random()
        if r < noalpha:
            names.append(rng.choice(NOALPHA))
        elif r < noalpha + hfrac:
            names.append(rng.choice(HYDRO))
        else:
            names.append(rng.choice(HEAVY))
    return names


def split_sizes(rng, n, k):
    """k positive sizes summing to n (k <= n)"""
    cuts = sorted(rng.sample(range(1, n), k - 1)) if k > 1 else []
    edges = [0] + cuts + [n]
    return [edges[i + 1] - edges[i] for i in range(k)]


def gen_molecule(rng, name, n_atoms, n_res=1, hfrac=0.3, resnames=None, res_sizes=None, connected=True,
                 no_bonds=False, noalpha=0.0, prefix=""):
    """random molecule spec.  Residues with the same (resname, size) share their atom names, because
    the .gro reader keeps one prototype residue per (resname, size)."""
    n_res = max(1, min(n_res, n_atoms))
    sizes = list(res_sizes) if res_sizes else split_sizes(rng, n_atoms, n_res)
    if resnames is None:
        resnames = [prefix + rng.choice(RESNAMES) for _ in sizes]
    proto = {}
    atoms = []
    for r, (rn, sz) in enumerate(zip(resnames, sizes)):
        key = (rn, sz)
        if key not in proto:
            proto[key] = gen_atom_names(rng, sz, hfrac, noalpha)
        for an in proto[key]:
            atoms.append([r + 1, rn, an])
    n = len(atoms)
    bonds = [] if no_bonds else gen_bonds(rng, n, connected)
    return {"name": name, "atoms": atoms, "bonds": bonds, "coords": gen_coords(rng, n)}


def residues_of(spec):
    """[(resname, [atomname…]), …] : maximal runs of equal (resnr, resname)"""
    out = []
    last = None
    for rnr, rn, an in spec["atoms"]:
        if last != (rnr, rn):
            out.append((rn, []))
            last = (rnr, rn)
        out[-1][1].append(an)
    return out


def write_itp(path, spec):
    with open(path, "w") as f:
        f.write("[ moleculetype ]\n; name nrexcl\n%s 1\n\n[ atoms ]\n" % spec["name"])
        f.write("; nr type resnr residue atom cgnr charge mass\n")
        for k, (rnr, rn, an) in enumerate(spec["atoms"]):
            f.write("%d T %d %s %s %d 0.000 1.000\n" % (k + 1, rnr, rn, an, k + 1))
        f.write("\n[ bonds ]\n; ai aj funct\n")
        for a, b in spec["bonds"]:
            f.write("%d %d 1\n" % (a + 1, b + 1))
        f.write("\n")


def _gro_lines(spec, first_atom, first_res, shift=(0, 0, 0)):
    lines = []
    for k, ((rnr, rn, an), c) in enumerate(zip(spec["atoms"], spec["coords"])):
        lines.append("%5d%-5s%5s%5d%8.3f%8.3f%8.3f\n" % (
            (first_res + rnr - 1) % 100000, rn, an, (first_atom + k) % 100000,
            (c[0] + shift[0]) / 1000.0, (c[1] + shift[1]) / 1000.0, (c[2] + shift[2]) / 1000.0))
    return lines


def write_gro(path, spec, title="generated"):
    lines = _gro_lines(spec, 1, 1)
    with open(path, "w") as f:
        f.write(title + "\n%d\n" % len(lines))
        f.writelines(lines)
        f.write("%10.5f%10.5f%10.5f\n" % (50.0, 50.0, 50.0))


def write_molecule(dirname, tag, spec):
    fgro = os.path.join(dirname, tag + ".gro")
    fitp = os.path.join(dirname, tag + ".itp")
    write_gro(fgro, spec)
    write_itp(fitp, spec)
    return fgro, fitp


def write_system(path, specs, order, title="generated system"):
    """a system .gro: `order` is a list of indices into `specs`, one entry per molecule instance"""
    lines = []
    atom, res = 1, 1
    for inst, si in enumerate(order):
        sp = specs[si]
        lines += _gro_lines(sp, atom, res, shift=(5000 * (inst + 1), 0, 0))
        atom += len(sp["atoms"])
        res += sp["atoms"][-1][0]
    with open(path, "w") as f:
        f.write(title + "\n%d\n" % len(lines))
        f.writelines(lines)
        f.write("%10.5f%10.5f%10.5f\n" % (500.0, 50.0, 50.0))


def load_molecule(dirname, tag, spec):
    from gaddlemaps.components import Molecule
    fgro, fitp = write_molecule(dirname, tag, spec)
    return Molecule.from_files(fgro, fitp)
