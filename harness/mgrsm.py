"""harness.mgrsm — the `Manager` object as a state machine (C05/C20; model `GMModel.ManagerSM`, driver op `mgrsm`).

A case is a SESSION with one real `Manager`:
  {"kind": "sm", "desc": DESC (harness/mgrgen.py, every species loaded),
   "variants": [ {"sp": species index, "role": good|good2|wrong:<how>|othername, "name": moleculetype name in its .itp,
                  "mol": MOL, "resnr0": first resnr of the .itp} ],              end-resolution molecules, as files
   "ops": [ {"op": "add",  "arg": ARG}                       Manager.add_end_molecule(arg)
            {"op": "many", "args": [ARG]}                    Manager.add_end_molecules(*args)
            {"op": "set",  "key": str, "arg": ARG}           manager.molecule_correspondence[key].end = arg
            {"op": "calc", "scale": float}                   Manager.calculate_exchange_maps(scale)
            {"op": "align", "keys": [str], "engine": bool}   Manager.align_molecules(restrictions={k: None}, …)
            {"op": "extrap", "ext": "gro"|"xyz", "pre": bool} Manager.extrapolate_system(out) ; pre = a file is already there ],
   "npseed": int}
  ARG = {"t": "var", "v": variant index, "fresh": bool (a newly loaded Molecule / the last one loaded for this variant)}
      | {"t": "none"} | {"t": "notmol", "what": "str"|"int"|"top"|"residue"|"list"}

After EVERY call the harness snapshots `molecule_correspondence` (keys in dict order; for start / end / the map's two
molecules: name, identity of the topology object, identity of the coordinate set, velocity flag, and per residue the
atoms' (resname, name, index, top_resid); the map's scale_factor) and the exception class that escaped; the whole
session is then replayed by the model (`MgrSM.step`) from the generator's description and compared row by row.

Oracle (property clause "Requesting extrapolation before the maps exist raises an error and writes no file"), from
the harness's own bookkeeping of the history, not from the model and not from the table: whenever no species has both
resolutions attached, or some attached species never had a map built (no `calculate_exchange_maps` ran while it was
attached), `extrapolate_system` must raise, the directory must hold exactly the files it held before, and a file that was already
at the output path must be byte-identical (same inode, same mtime).  Same demand for an unregistered extension.
"""
from __future__ import annotations

import contextlib
import copy
import hashlib
import io
import os
import shutil
import warnings

import numpy as np

from .common import fbits, hexs, unhexs
from . import mgrgen

ERR = {"SystemError": 1, "ValueError": 2, "TypeError": 3, "OSError": 4, "IOError": 4, "KeyError": 5,
       "IndexError": 6}
SCALES = [0.5, 0.5, 1.0, 0.25, 2.0, 1e-3]
START_TOP, START_INST = 1000, 500
ARG_TOP = 2000


# ----------------------------------------------------------------------------- generation

def _wrong(rng, aa, how):
    """a molecule that is NOT `==` to `aa` (Molecule.__eq__: name, length, per atom resname/name/index/top_resid)"""
    m = copy.deepcopy(aa)
    resnr0 = 1
    last = m["residues"][-1]
    n = len(m["xyz"])
    if how == "rename-atom":
        r = rng.randrange(len(m["residues"]))
        k = rng.randrange(len(m["residues"][r]["atoms"]))
        m["residues"][r]["atoms"][k] = "Q" + m["residues"][r]["atoms"][k][1:4]
    elif how == "extra-atom":
        last["atoms"].append(f"C{n + 1}")
        m["xyz"].append([m["xyz"][-1][0] + 0.11, m["xyz"][-1][1] + 0.02, m["xyz"][-1][2]])
        m["bonds"].append([n - 1, n])
    elif how == "extra-residue":
        m["xyz"].append([m["xyz"][-1][0] + 0.12, m["xyz"][-1][1], m["xyz"][-1][2]])
        m["xyz"].append([m["xyz"][-1][0] + 0.12, m["xyz"][-1][1] + 0.05, m["xyz"][-1][2]])
        m["residues"].append({"resname": "XTR", "atoms": [f"C{n + 1}", f"O{n + 2}"]})
        m["bonds"].append([n - 1, n])
        m["bonds"].append([n, n + 1])
    elif how == "rename-residue":
        last["resname"] = (last["resname"] + "Z")[:5]
    elif how == "resnr-shift":
        resnr0 = rng.choice([2, 7])
    else:
        raise ValueError(how)
    m["xyz"] = [[round(c, 3) for c in p] for p in m["xyz"]]
    return m, resnr0


def _moved(rng, aa):
    """the same molecule somewhere else (another coordinate set, another first residue number)"""
    m = copy.deepcopy(aa)
    R, t = mgrgen._rot(rng), [rng.uniform(0.2, 2.5) for _ in range(3)]
    m["xyz"] = [mgrgen._r3(mgrgen._apply(R, t, p)) for p in m["xyz"]]
    m["resid0"] = rng.choice([1, 3, 40, 512])
    return m


def gen_case(rng, nops=(6, 18), scenario=None):
    desc = mgrgen.gen_system(rng, nmol_max=10, small=True)
    aa_vel = any(s["aa"] is not None and s["aa"].get("vel") for s in desc["species"])
    for s in desc["species"]:
        if s["aa"] is None:
            s["aa"] = mgrgen.gen_aa(rng, s["cg"], vel=aa_vel, smaller=(s["kind"] == "reverse"))
    variants = []
    for i, s in enumerate(desc["species"]):
        variants.append({"sp": i, "role": "good", "name": s["name"], "mol": s["aa"], "resnr0": 1})
        variants.append({"sp": i, "role": "good2", "name": s["name"], "mol": _moved(rng, s["aa"]), "resnr0": 1})
        how = rng.choice(["rename-atom", "extra-atom", "extra-residue", "rename-residue", "resnr-shift"])
        wm, resnr0 = _wrong(rng, s["aa"], how)
        variants.append({"sp": i, "role": "wrong:" + how, "name": s["name"], "mol": wm, "resnr0": resnr0})
        if rng.random() < 0.5:
            variants.append({"sp": i, "role": "othername", "name": rng.choice(["VTE", s["name"] + "Q", "SOL"]),
                             "mol": _moved(rng, s["aa"]), "resnr0": 1})
        if rng.random() < 0.3:
            # velocities unlike the other end molecules: the writer refuses the first such line (IOError half way)
            vm = _moved(rng, s["aa"])
            vm["vel"] = not aa_vel
            variants.append({"sp": i, "role": "good-othervel", "name": s["name"], "mol": vm, "resnr0": 1})
    keys = [s["name"] for s in desc["species"]]
    by_role = {}
    for k, v in enumerate(variants):
        by_role.setdefault((v["sp"], v["role"].split(":")[0]), []).append(k)

    def var_arg(sp=None, roles=None, fresh=None):
        sp = rng.randrange(len(keys)) if sp is None else sp
        roles = roles or rng.choices([["good"], ["good2"], ["wrong"], ["othername"], ["good-othervel"]],
                                     [45, 20, 20, 10, 5])[0]
        cand = [k for r in roles for k in by_role.get((sp, r), [])] or by_role[(sp, "good")]
        return {"t": "var", "v": rng.choice(cand), "fresh": (rng.random() < 0.8) if fresh is None else fresh}

    def any_arg(allow_none=False):
        r = rng.random()
        if r < 0.08:
            return {"t": "notmol", "what": rng.choice(["str", "int", "top", "residue", "list"])}
        if r < (0.3 if allow_none else 0.11):
            return {"t": "none"}
        return var_arg()

    def extrap():
        return {"op": "extrap", "ext": "gro" if rng.random() < 0.85 else rng.choice(["xyz", "pdb", "", "gro.bak"]),
                "pre": rng.random() < 0.45}

    def calc():
        return {"op": "calc", "scale": rng.choice(SCALES + [round(rng.uniform(0.05, 1.5), 4)])}

    def rand_key():
        return rng.choice(keys) if rng.random() < 0.85 else rng.choice(["NOPE", "", keys[0].lower(), "W"])

    def rand_op():
        r = rng.random()
        if r < 0.33:
            return {"op": "add", "arg": any_arg()}
        if r < 0.38:
            return {"op": "many", "args": [any_arg() for _ in range(rng.randint(0, 3))]}
        if r < 0.50:
            return {"op": "set", "key": rand_key(), "arg": any_arg(allow_none=True)}
        if r < 0.66:
            return calc()
        if r < 0.74:
            ks = [k for k in keys if rng.random() < 0.4]
            if rng.random() < 0.15:
                ks.append("NOPE")
            return {"op": "align", "keys": ks, "engine": rng.random() < 0.5}
        return extrap()

    ops = []
    if scenario is None:
        scenario = rng.choice(["random", "random", "latemap", "ready", "readd-after-run", "reset-stale", "midrun"])
    order = list(range(len(keys)))
    rng.shuffle(order)
    if scenario == "latemap" and len(keys) > 1:
        # the C05 'latemap' story: attach, maps, attach a FURTHER species, extrapolate (SystemError), … , maps, extrapolate
        n1 = rng.randint(1, len(keys) - 1)
        ops += [{"op": "add", "arg": var_arg(sp, ["good"], True)} for sp in order[:n1]]
        ops += [calc(), extrap()]
        ops += [{"op": "add", "arg": var_arg(order[n1], ["good", "good2"], True)}]
        ops += [extrap()]
        for _ in range(rng.randint(0, 3)):
            o = rand_op()
            if o["op"] != "calc":
                ops.append(o)
        ops += [extrap(), calc(), extrap()]
    elif scenario == "ready":
        ops += [{"op": "many", "args": [var_arg(sp, ["good"], True) for sp in order[:rng.randint(1, len(keys))]]}]
        if rng.random() < 0.5:
            ops.append({"op": "align", "keys": [], "engine": True})
        ops += [calc(), extrap(), extrap()]
    elif scenario == "readd-after-run":
        # after a successful run the topology shared with the caller's molecule carries the residue numbers of the
        # last molecule mapped: the SAME object can be re-attached, a freshly loaded one is refused
        ops += [{"op": "add", "arg": var_arg(sp, ["good"], True)} for sp in order]
        ops += [calc(), {"op": "extrap", "ext": "gro", "pre": False}]
        ops += [{"op": "add", "arg": var_arg(order[0], ["good"], rng.random() < 0.5)} for _ in range(2)]
        ops += [{"op": "add", "arg": var_arg(order[-1], ["good", "good2"], None)}, extrap()]
    elif scenario == "reset-stale":
        sp = order[0]
        ops += [{"op": "add", "arg": var_arg(sp, ["good"], True)}, calc(),
                {"op": "set", "key": keys[sp], "arg": {"t": "none"}}, extrap(),
                {"op": "add", "arg": var_arg(sp, ["good2", "good", "wrong"], True)}, extrap()]
    elif scenario == "midrun":
        # the pre-flight passes and the run stops half way: a first end molecule is accepted whatever it is (here one
        # with an extra residue -> ValueError in `resids=`, or with velocities unlike the others -> IOError in the
        # writer); the species mapped before the stop already had their shared topology renumbered
        bad = order[rng.randrange(len(order))]
        for sp in order:
            if sp == bad:
                cand = [k for k, v in enumerate(variants) if v["sp"] == sp and
                        v["role"] in ("wrong:extra-residue", "good-othervel")]
                if cand:
                    ops.append({"op": "add", "arg": {"t": "var", "v": rng.choice(cand), "fresh": True}})
                    continue
            ops.append({"op": "add", "arg": var_arg(sp, ["good"], True)})
        ops += [calc(), {"op": "extrap", "ext": "gro", "pre": rng.random() < 0.5}]
        ops += [{"op": "add", "arg": var_arg(sp, ["good"], True)} for sp in order[:2]]
    n = rng.randint(*nops)
    while len(ops) < n:
        ops.append(rand_op())
    return {"kind": "sm", "scenario": scenario, "desc": desc, "variants": variants, "ops": ops,
            "npseed": rng.randrange(2 ** 31)}


# ----------------------------------------------------------------------------- files

def write_itp(path, molname, mol, resnr0=1):
    with open(path, "w") as f:
        f.write("; end resolution\n[ moleculetype ]\n; name nrexcl\n{}   1\n\n[ atoms ]\n".format(molname))
        n = 0
        for r, res in enumerate(mol["residues"]):
            for name in res["atoms"]:
                n += 1
                f.write("{:5d} {:6s} {:4d} {:6s} {:6s} {:4d} {:8.3f} {:8.3f}\n".format(
                    n, "T" + name[:1], r + resnr0, res["resname"], name, n, 0.0, 12.0))
        if mol["bonds"]:
            f.write("\n[ bonds ]\n")
            for i, j in mol["bonds"]:
                f.write("{:5d} {:5d} 1 0.3 1000\n".format(i + 1, j + 1))
        f.write("\n")


def materialize(case, directory):
    desc = case["desc"]
    paths = mgrgen.materialize(desc, directory)
    vpaths = []
    for k, v in enumerate(case["variants"]):
        g, t = os.path.join(directory, f"var{k}.gro"), os.path.join(directory, f"var{k}.itp")
        write_itp(t, v["name"], v["mol"], v.get("resnr0", 1))
        mgrgen.write_gro(g, f"variant {k}", mgrgen.mol_atoms(v["mol"], resid0=v["mol"].get("resid0", 1)),
                         [3.0, 3.0, 3.0], vel=v["mol"].get("vel", False))
        vpaths.append((g, t))
    return paths, vpaths


# ----------------------------------------------------------------------------- ground truth molecules (model input)

def _sig_from_desc(mol, resnr0=1):
    """[[(resname, name, index, top_resid)]] residue by residue, as the .itp says"""
    out, idx = [], 0
    for r, res in enumerate(mol["residues"]):
        atoms = []
        for name in res["atoms"]:
            atoms.append((res["resname"], name, idx, r + resnr0))
            idx += 1
        out.append(atoms)
    return out


def _mol_tokens(m):
    name, top, inst, hv, residues = m
    t = [hexs(name), str(top), str(inst), str(int(hv)), str(len(residues))]
    for res in residues:
        t.append(str(len(res)))
        for rn, an, idx, tr in res:
            t += [hexs(rn), hexs(an), str(idx), str(tr)]
    return t


def _arg_tokens(a):
    if a is None:
        return ["0"]
    if a == "notmol":
        return ["1"]
    return ["2"] + _mol_tokens(a)


# ----------------------------------------------------------------------------- observation of the real Manager

class Registry:
    """identity labels for the objects met in the table.  Topology objects: labelled when the harness creates them
    (start species i -> 1000+i, the k-th molecule the harness loaded -> 2000+k).  Molecule objects: the first time
    one is seen it is identified by its topology object AND its coordinates (bitwise) among the molecules the harness
    knows (the System's templates, the arguments it passed); afterwards by object identity (kept alive here)."""

    def __init__(self):
        self.top = {}        # id(MoleculeTop) -> label
        self.inst = {}       # id(Molecule) -> label
        self.known = []      # (top label, inst label, positions copy)
        self.keep = []
        self.args = set()    # id() of the Molecule objects the harness passed in

    def add_known(self, mol, top_label, inst_label):
        self.top[id(mol.molecule_top)] = top_label
        self.keep += [mol, mol.molecule_top]
        self.known.append((top_label, inst_label, np.array(mol.atoms_positions, dtype=float).copy()))

    def label(self, mol):
        """(top label, inst label, stored-by-reference flag)"""
        tl = self.top.get(id(mol.molecule_top), -1)
        if id(mol) not in self.inst:
            self.keep.append(mol)
            pos = np.array(mol.atoms_positions, dtype=float)
            il = -1
            for t, i, p in self.known:
                if t == tl and p.shape == pos.shape and np.array_equal(p, pos):
                    il = i
            self.inst[id(mol)] = il
        return tl, self.inst[id(mol)], id(mol) in self.args


def snap_mol(reg, m):
    if m is None:
        return None
    tl, il, byref = reg.label(m)
    residues = [[] for _ in range(len(m.residues))]
    for atom, r in zip(m, [k for k, r in enumerate(m.residues) for _ in r]):
        residues[r].append((atom.resname, atom.name, int(atom.index), int(atom.top_resid)))
    hv = all(a.velocity is not None for a in m) if len(m) else False
    return (m.name, tl, il, bool(hv), residues, byref)


def snap_table(reg, man):
    out = []
    for key, al in man.molecule_correspondence.items():
        em = al.exchange_map
        mp = None
        if em is not None:
            mp = (snap_mol(reg, getattr(em, '_refmolecule', None)), snap_mol(reg, getattr(em, '_targetmolecule', None)), int(fbits(em.scale_factor)))
        out.append((key, snap_mol(reg, al.start), snap_mol(reg, al.end), mp))
    return out


def _dir_state(d):
    st = {}
    for n in sorted(os.listdir(d)):
        p = os.path.join(d, n)
        s = os.stat(p)
        with open(p, "rb") as f:
            h = hashlib.sha1(f.read()).hexdigest()
        st[n] = (s.st_ino, s.st_size, s.st_mtime_ns, h)
    return st


def _quiet():
    return contextlib.redirect_stdout(io.StringIO())


# ----------------------------------------------------------------------------- model response

class _Tok:
    def __init__(self, toks):
        self.t, self.i = toks, 0

    def next(self):
        self.i += 1
        return self.t[self.i - 1]

    def nat(self):
        return int(self.next())

    def mol(self):
        name = unhexs(self.next())
        top, inst, hv = self.nat(), self.nat(), self.nat() == 1
        residues = []
        for _ in range(self.nat()):
            res = []
            for _ in range(self.nat()):
                rn, an = unhexs(self.next()), unhexs(self.next())
                res.append((rn, an, int(self.next()), int(self.next())))
            residues.append(res)
        return (name, top, inst, hv, residues, False)

    def optmol(self):
        return self.mol() if self.nat() else None

    def table(self):
        out = []
        for _ in range(self.nat()):
            key = unhexs(self.next())
            st, en = self.optmol(), self.optmol()
            mp = None
            if self.nat():
                mp = (self.mol(), self.mol(), self.nat())
            out.append((key, st, en, mp))
        return out

    def strs(self):
        return [unhexs(self.next()) for _ in range(self.nat())]


# ----------------------------------------------------------------------------- evaluation

def evaluate(ctx, case):
    warnings.simplefilter("ignore")
    from gaddlemaps import Manager, Alignment
    from gaddlemaps.components import Molecule, MoleculeTop
    desc = case["desc"]
    workdir = os.path.join(ctx.scratch, f"sm-{ctx.evaluations}")
    outdir = os.path.join(workdir, "out")
    try:
        paths, vpaths = materialize(case, workdir)
        os.makedirs(outdir)
        np.random.seed(case["npseed"])
        with _quiet():
            man = Manager.from_files(paths["sys"], *[p["cg"] for p in paths["species"]])
        reg = Registry()
        for i, m in enumerate(man.system.different_molecules):
            reg.add_known(m, START_TOP + i, START_INST + i)
        # ---- model input from the DESCRIPTION
        init_mols = [(s["name"], START_TOP + i, START_INST + i, bool(desc.get("sysvel", False)), _sig_from_desc(s["cg"]))
                     for i, s in enumerate(desc["species"])]
        sys_list = [(desc["species"][m["sp"]]["name"], list(m["resids"])) for m in desc["mols"] if m["sp"] >= 0]
        rows = [(None, None, snap_table(reg, man), list(man.complete_correspondence))]
        mops = []                 # model op token lists
        objs = {}                 # variant index -> last loaded (Molecule, label)
        nobj = 0
        # ---- the harness's own bookkeeping for the oracle
        attached = {k: False for k in man.molecule_correspondence}
        has_map = {k: False for k in man.molecule_correspondence}    # a calculate_exchange_maps ran while k was attached
        stale = {k: False for k in man.molecule_correspondence}      # … and k was detached and attached again since
        ctx.count("sm:sessions")
        ctx.count("sm:scenario:" + case.get("scenario", "?"))

        def make_arg(a):
            """-> (python object, model Arg, key it would attach to by name or None)"""
            nonlocal nobj
            if a["t"] == "none":
                return None, None
            if a["t"] == "notmol":
                what = a["what"]
                if what == "str":
                    return desc["species"][0]["name"], "notmol"
                if what == "int":
                    return 7, "notmol"
                if what == "list":
                    return [], "notmol"
                if what == "top":
                    return MoleculeTop(vpaths[0][1]), "notmol"
                return man.system.different_molecules[0].residues[0], "notmol"      # a Residue
            k = a["v"]
            if a["fresh"] or k not in objs:
                mol = Molecule.from_files(*vpaths[k])
                reg.add_known(mol, ARG_TOP + nobj, nobj)
                reg.args.add(id(mol))
                objs[k] = (mol, nobj)
                nobj += 1
                ctx.count("sm:arg:fresh")
            else:
                ctx.count("sm:arg:same-object-again")
            mol, lab = objs[k]
            # the argument as it IS at call time (an input): its topology may have been renumbered by earlier runs
            sm = snap_mol(reg, mol)
            return mol, (sm[0], ARG_TOP + lab, lab, sm[3], sm[4])

        def note_attach(pyobj, key, err):
            if err is None and key in attached:
                if pyobj is None:
                    attached[key] = False
                else:
                    if not attached[key] and has_map[key]:
                        stale[key] = True
                    attached[key] = True

        for j, op in enumerate(case["ops"]):
            kind = op["op"]
            err, aligned, skip_err = None, [], False
            if kind == "add":
                py, marg = make_arg(op["arg"])
                mops.append(["A"] + _arg_tokens(marg))
                try:
                    man.add_end_molecule(py)
                except Exception as e:   # noqa: BLE001
                    err = e
                note_attach(py, getattr(py, "name", None) if isinstance(py, Molecule) else None, err)
                ctx.count("sm:add:" + (case["variants"][op["arg"]["v"]]["role"].split(":")[0] if op["arg"]["t"] == "var"
                                       else op["arg"]["t"]) + ":" + (type(err).__name__ if err else "ok"))
            elif kind == "many":
                made = [make_arg(a) for a in op["args"]]
                t = ["M", str(len(made))]
                for _, marg in made:
                    t += _arg_tokens(marg)
                mops.append(t)
                before = [al.end for al in man.molecule_correspondence.values()]
                try:
                    man.add_end_molecules(*[p for p, _ in made])
                except Exception as e:   # noqa: BLE001
                    err = e
                # which of them were attached: every molecule before the failing one (observed by object identity)
                for (py, _), _k in zip(made, range(len(made))):
                    if isinstance(py, Molecule) and py.name in attached:
                        al = man.molecule_correspondence[py.name]
                        if al.end is not None and not any(al.end is b for b in before):
                            note_attach(py, py.name, None)
                ctx.count("sm:many:" + (type(err).__name__ if err else "ok"))
            elif kind == "set":
                py, marg = make_arg(op["arg"])
                mops.append(["E", hexs(op["key"])] + _arg_tokens(marg))
                try:
                    man.molecule_correspondence[op["key"]].end = py
                except Exception as e:   # noqa: BLE001
                    err = e
                note_attach(py, op["key"], err)
                ctx.count("sm:set:" + (type(err).__name__ if err else ("reset" if py is None else "ok")))
            elif kind == "calc":
                mops.append(["C", fbits(op["scale"])])
                try:
                    man.calculate_exchange_maps(op["scale"])
                except Exception as e:   # noqa: BLE001
                    err = e
                if err is None:
                    for k in attached:
                        if attached[k]:
                            has_map[k] = True
                            stale[k] = False
                ctx.count("sm:calc:" + (type(err).__name__ if err else "ok"))
            elif kind == "align":
                keys = op["keys"]
                mops.append(["G", str(len(keys))] + [hexs(k) for k in keys])
                real = Alignment.align_molecules
                old_steps = Alignment.STEPS_FACTOR
                engine_failed = []

                def rec_align(self, *a, _real=real, _engine=op.get("engine", False), **kw):
                    for key, al in man.molecule_correspondence.items():
                        if al is self:
                            aligned.append(key)
                    if _engine:
                        try:
                            return _real(self, *a, **kw)
                        except Exception:   # noqa: BLE001
                            engine_failed.append(True)
                            raise
                    return None

                Alignment.align_molecules = rec_align
                Alignment.STEPS_FACTOR = 2
                try:
                    # the keys are split over the three option dictionaries (all three are checked against the
                    # complete species before anything is aligned)
                    r = {k: None for k in keys[0::3]}
                    d = {k: None for k in keys[1::3]}
                    g = {k: True for k in keys[2::3]}
                    with _quiet():
                        man.align_molecules(restrictions=r or None, deformation_types=d or None,
                                            ignore_hydrogens=g or None)
                except Exception as e:   # noqa: BLE001
                    err = e
                finally:
                    Alignment.align_molecules = real
                    Alignment.STEPS_FACTOR = old_steps
                if engine_failed:
                    skip_err = True          # the alignment engine is not part of this model (C06)
                    ctx.count("sm:align:engine-raised-" + type(err).__name__)
                ctx.count("sm:align:" + (type(err).__name__ if err else "ok"))
            elif kind == "extrap":
                ext_ok = op["ext"] == "gro"
                mops.append(["X", "1" if ext_ok else "0"])
                out = os.path.join(outdir, f"out{j}" + ("." + op["ext"] if op["ext"] else ""))
                if op.get("pre"):
                    with open(out, "wb") as f:
                        f.write(b"precious\n    1\n    1RES      A    1   0.100   0.200   0.300\n   1.0 1.0 1.0\n")
                    ctx.count("sm:extrap:pre-existing-file")
                before = _dir_state(outdir)
                # "before the maps exist": nothing attached, or an attached species for which no map was ever built.
                # NOT demanded: a species detached by `.end = None` and attached again keeps the map object built for
                # its earlier end molecule (a map exists; counted as stale-map)
                must_fail = (not any(attached.values())) or any(attached[k] and not has_map[k] for k in attached)
                if not must_fail and any(attached[k] and stale[k] for k in attached):
                    ctx.count("sm:extrap:stale-map-of-a-reattached-species-used")
                try:
                    man.extrapolate_system(out)
                except Exception as e:   # noqa: BLE001
                    err = e
                after = _dir_state(outdir)
                # ---- oracle
                if must_fail or not ext_ok:
                    why = "maps-missing" if must_fail else "bad-extension"
                    ctx.oracle_ok(2)
                    ctx.count("sm:oracle:" + why)
                    if err is None:
                        ctx.oracle_fail(f"sm:extrapolate:{why}:no-error-raised", case, {"op": j})
                    if after != before:
                        changed = sorted(set(after) ^ set(before)) + [n for n in after if n in before and after[n] != before[n]]
                        ctx.oracle_fail(f"sm:extrapolate:{why}:"
                                        + ("pre-existing-file-touched" if op.get("pre") and os.path.basename(out) in changed
                                           else "file-created"), case,
                                        {"op": j, "changed": changed, "error": repr(err)})
                else:
                    ctx.count("sm:oracle:maps-exist")
                    if err is None:
                        ctx.oracle_ok()
                        if not os.path.exists(out):
                            ctx.oracle_fail("sm:extrapolate:returned-without-writing", case, {"op": j})
                ctx.count("sm:extrap:" + (type(err).__name__ if err else "ok")
                          + ("" if ext_ok or err is None or isinstance(err, SystemError) else ":bad-extension")
                          + ("" if not isinstance(err, SystemError) else
                             (":nothing-attached" if not any(attached.values()) else ":map-missing")))
                shutil.rmtree(outdir, ignore_errors=True)
                os.makedirs(outdir)
            else:
                raise ValueError("bad op " + kind)
            rows.append((None if skip_err else (ERR.get(type(err).__name__, 99) if err is not None else 0),
                         aligned, snap_table(reg, man), list(man.complete_correspondence)))
            ctx.count("sm:ops")

        nerr = sum(1 for r in rows[1:] if r[0])
        ctx.case({k: v for k, v in case.items()}, nontrivial=(len(case["ops"]) >= 4 and nerr >= 1),
                 sample={"scenario": case.get("scenario"), "species": [s["name"] for s in desc["species"]],
                         "ops": [o["op"] for o in case["ops"]], "errors": [r[0] for r in rows[1:]]})

        # ---- model
        toks = [str(len(init_mols))]
        for m in init_mols:
            toks += _mol_tokens(m)
        toks.append(str(len(sys_list)))
        for name, resids in sys_list:
            toks += [hexs(name), str(len(resids))] + [str(r) for r in resids]
        toks.append(str(len(mops)))
        for t in mops:
            toks += t

        def cb(status, rtoks, case, rows=rows):
            tk = _Tok(rtoks)
            t0 = tk.table()
            if t0 != rows[0][2]:
                ctx.disagree(case, "Manager.__init__: species table", _brief(rows[0][2]), _brief(t0))
                return
            n = tk.nat()
            for j in range(n):
                merr = tk.nat()
                maligned = tk.strs()
                mt = tk.table()
                ierr, ialigned, it, icomplete = rows[j + 1]
                opname = case["ops"][j]["op"]
                if ierr is not None and merr != ierr:
                    ctx.disagree(case, f"op {j} ({opname}): exception class", ierr, merr)
                    return
                if ierr == 0 and opname == "align" and maligned != ialigned:
                    ctx.disagree(case, f"op {j} (align): species aligned", ialigned, maligned)
                    return
                if mt != it:
                    ctx.disagree(case, f"op {j} ({opname}): species table after the call", _diff(it, mt), "see left")
                    return
                mcomplete = [k for k, st, en, _ in mt if st is not None and en is not None]
                if mcomplete != icomplete:
                    ctx.disagree(case, f"op {j} ({opname}): complete_correspondence keys", icomplete, mcomplete)
                    return
        ctx.model.ask("mgrsm", " ".join(toks), cb, case)
    finally:
        shutil.rmtree(workdir, ignore_errors=True)


def _brief(table):
    return [(k, None if s is None else s[:4], None if e is None else e[:4] + (e[5],),
             None if m is None else (m[0][:4], m[1][:4], m[2])) for k, s, e, m in table]


def _diff(impl, model):
    if len(impl) != len(model):
        return {"keys": [[r[0] for r in impl], [r[0] for r in model]]}
    for a, b in zip(impl, model):
        if a != b:
            for name, x, y in (("key", a[0], b[0]), ("start", a[1], b[1]), ("end", a[2], b[2]), ("map", a[3], b[3])):
                if x != y:
                    return {"species": a[0], "field": name, "implementation": x, "model": y}
    return None
