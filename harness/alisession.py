"""harness.alisession — ONE `gaddlemaps.Alignment` object driven through its public API and mirrored, call
by call, into one `ali_session` request for the Lean model (`GMModel/Comparative.lean`; work package WPH):

    Alignment(start, end) / .start = / .end =        (None, non-Molecule, same species, other species)
    align_molecules() on an object with an unset side (the ValueError at its head)
    init_exchange_map(scale)
    write_comparative_gro(fname) / write_comparative_gro()      (scratch cwd)
    coordinate assignments on the stored or on the caller's molecules in between

After every call: exception class, the observation of every live molecule (caller's AND stored), and —
for the two methods — the bytes of the written file / the map's table are compared with the model; the
clauses the task states about them are evaluated directly on the real objects (`Oracle`).

Shared with C06's alignment cases (`comparative_after_alignment`).
"""
from __future__ import annotations

import os
import warnings

import numpy as np
from .common import quiet as _quiet

from .common import fbits, hexs, unhexs
from . import heapgen as hg

TITLE = "Gro file genereted with 'Gromacs Tools' python module."
TOL = 1e-9


# ----------------------------------------------------------------------------- independent expectations

def expected_bytes(start_gros, end_gros):
    """the bytes `write_comparative_gro` must produce for stored molecules with these AtomGro observations —
    written out from the method's docstring and the .gro format, without calling any gaddlemaps code"""
    lines = []
    for resid, resname, gros in ((1, "START", start_gros), (2, "END", end_gros)):
        for (_rid, _rn, name, atomid, pos, _vel) in gros:
            lines.append("%5d%-5s%5s%5d" % (resid, resname, name[:5], atomid % 100000)
                         + "".join("%8.3f" % float(c) for c in pos))
    n = len(lines)
    text = TITLE + "\n" + "%9d\n" % n + "".join(l + "\n" for l in lines) + " ".join("%9.5f" % 0.0 for _ in range(3)) + "\n"
    return text.encode("ascii")


def ext_ok(name):
    """the extension rule of `open_coordinate_file`, written out independently: what follows the last dot of the
    base name (the whole base name when it has no dot) must be a registered extension"""
    return os.path.basename(name).split(".")[-1] in ("gro", "GRO")


def fits_field(gros):
    """every coordinate occupies exactly the 8 columns of '%8.3f' (the C13 quantifier's 'values that fit')"""
    return all(len("%8.3f" % float(c)) == 8 and np.isfinite(c) for g in gros for c in g[4])


def readback_problem(path, start_gros, end_gros):
    """C13's clauses on the written file, through the real reader. Returns None or a description."""
    from gaddlemaps.parsers import GroFile
    with GroFile(path) as f:
        n = f.natoms
        recs = f.readlines()
        box = np.array(f.box_matrix, dtype=float)
    want = [(1, "START", g) for g in start_gros] + [(2, "END", g) for g in end_gros]
    if n != len(want) or len(recs) != len(want):
        return f"{len(recs)} records (declared {n}) for {len(want)} atoms"
    for k, (r, (resid, resname, g)) in enumerate(zip(recs, want)):
        if len(r) != 7:
            return f"record {k} has {len(r)} fields (velocities must be dropped)"
        if r[0] != resid or r[1] != resname:
            return f"record {k}: residue {r[0]}{r[1]}, expected {resid}{resname}"
        if r[2] != g[2][:5] or r[3] != g[3] % 100000:
            return f"record {k}: atom {r[2]} {r[3]}, expected {g[2]} {g[3]}"
        if any(abs(float(a) - float(b)) > 0.0005 + 1e-12 * max(1.0, abs(float(b))) for a, b in zip(r[4:7], g[4])):
            return f"record {k}: coordinates {r[4:7]} vs {g[4]}"
    if np.abs(box).max() != 0.0:
        return "box is not the zero matrix"
    return None


# ----------------------------------------------------------------------------- the mirrored session

class AliWorld:
    """live objects + the tokens that reproduce the same history in the model"""

    def __init__(self, ctx, workdir):
        self.ctx = ctx
        self.dir = workdir
        self.env = []
        self.ops = []
        self.desc = []
        self.status = []
        self.snaps = []        # (env observations, start observation | None, end observation | None)
        self.extra = []
        self.ali = None
        self.fails = {}
        self.oracle_checks = 0

    # -- bookkeeping
    def fail(self, key, detail=None):
        self.fails.setdefault(key, detail)

    def snapshot(self):
        a = self.ali
        return ([hg.observe(o) for o in self.env],
                None if a is None or a.start is None else hg.observe(a.start),
                None if a is None or a.end is None else hg.observe(a.end))

    def record(self, toks, desc, status, extra=None):
        self.ops.append(toks)
        self.desc.append(desc)
        self.status.append(status)
        self.snaps.append(self.snapshot())
        self.extra.append(extra)

    def request(self):
        return f"{len(self.ops)} " + " ".join(self.ops)

    def _call(self, fn):
        status = "ok"
        ret = None
        err = None
        try:
            with warnings.catch_warnings():
                warnings.simplefilter("ignore")
                with _quiet():
                    ret = fn()
        except Exception as e:   # noqa: BLE001 — the model must predict the same class
            status = hg.exc_name(e)
            err = e
        return status, ret, err

    # -- operations
    def load(self, mol, desc):
        self.env.append(mol)
        self.record(hg.World.load_tokens(None, mol), desc, "ok")
        return len(self.env) - 1

    def arg_of(self, arg):
        """["N"] | ["O", kind] | ["M", i] -> (python value, token)"""
        if arg[0] == "N":
            return None, "N"
        if arg[0] == "M":
            return self.env[arg[1]], f"M {arg[1]}"
        kind = arg[1]
        base = self.env[0]
        val = {"residue": lambda: base.residues[0], "str": lambda: "molecule", "int": lambda: 3,
               "atom": lambda: base[0], "top": lambda: base.molecule_top,
               "agro": lambda: base.residues[0][0]}[kind]()
        return val, "O"

    def new_alignment(self, arg_s, arg_e):
        """Alignment(start, end) = the two setters, in this order, on a fresh object.  The mirrored object is built
        step by step (so that the state between the two assignments is observed); the constructor itself is called
        too and must raise exactly when (and what) the first refused assignment raises."""
        from gaddlemaps import Alignment
        vs, ts = self.arg_of(arg_s)
        ve, te = self.arg_of(arg_e)
        cstatus, cali, _ = self._call(lambda: Alignment(vs, ve))
        ali = Alignment()
        self.ali = ali
        first_err = None
        for name, arg, tok, val, get in (("setstart", arg_s, ts, vs, lambda a: a.start),
                                         ("setend", arg_e, te, ve, lambda a: a.end)):
            st, _, _ = self._call(lambda: setattr(ali, "start" if name == "setstart" else "end", val))
            if st != "ok" and first_err is None:
                first_err = st
            self._after_set(name, arg, tok, st, get)
        self.oracle_checks += 1
        if cstatus != (first_err or "ok"):
            self.fail("constructor:differs-from-the-two-assignments", {"constructor": cstatus, "assignments": first_err})
        elif cstatus == "ok" and not hg.bits_equal(
                (hg.observe(cali.start) if cali.start is not None else ("-",),
                 hg.observe(cali.end) if cali.end is not None else ("-",)),
                (hg.observe(ali.start) if ali.start is not None else ("-",),
                 hg.observe(ali.end) if ali.end is not None else ("-",))):
            self.fail("constructor:stores-other-molecules-than-the-two-assignments")
        return first_err is None

    def _after_set(self, name, arg, tok, status, get):
        if status == "ok" and arg[0] == "M":
            self.env.append(get(self.ali))          # the STORED copy becomes addressable
        self.record(f"{name} {tok}", f"alignment.{name[3:]} = {arg}", status)

    def set_side(self, side, arg):
        val, tok = self.arg_of(arg)
        before = self.ali.start if side == "start" else self.ali.end
        status, _, _ = self._call(lambda: setattr(self.ali, side, val))
        after = self.ali.start if side == "start" else self.ali.end
        self.oracle_checks += 1
        if status != "ok" and after is not before:
            self.fail("setter:refused-assignment-changed-the-object", {"side": side, "arg": arg})
        if status == "ok" and arg[0] == "M":
            src = self.env[arg[1]]
            if after is src:
                self.fail("setter:stores-the-caller's-object-instead-of-a-copy", {"side": side})
        self._after_set("set" + side, arg, tok, status, (lambda a: a.start) if side == "start" else (lambda a: a.end))
        return status

    def hop_move(self, i, d):
        status, _, _ = self._call(lambda: self.env[i].move(np.array(d, dtype=float)))
        self.record(f"hop move {i} {hg.tok_v3(d)}", f"env[{i}].move", status)

    def hop_setpos(self, i, arr):
        arr = np.array(arr, dtype=float).reshape(-1, 3)
        status, _, _ = self._call(lambda: setattr(self.env[i], "atoms_positions", arr))
        self.record(f"hop setpos {i} {len(arr)} " + " ".join(hg.tok_v3(p) for p in arr), f"env[{i}].atoms_positions = ...",
                    status)

    def mirror_positions(self, i, arr):
        """the model is told what an (unmodelled here) method did to the coordinates of env[i]"""
        arr = np.array(arr, dtype=float).reshape(-1, 3)
        self.record(f"hop setpos {i} {len(arr)} " + " ".join(hg.tok_v3(p) for p in arr),
                    f"(mirror) env[{i}] holds the aligned coordinates", "ok")

    def align_check(self):
        """align_molecules on an object with an unset side: must raise ValueError before anything else"""
        unset = self.ali.start is None or self.ali.end is None
        if not unset:
            self.record("alignchk", "align_molecules (both set: not run)", "ok")
            return
        status, _, _ = self._call(lambda: self.ali.align_molecules())
        self.oracle_checks += 1
        if status != "ValueError":
            self.fail("align:unset-side-not-refused", status)
        self.record("alignchk", "align_molecules() with an unset side", status)

    def init_map(self, scale):
        ali = self.ali
        unset = ali.start is None or ali.end is None
        before = ali.exchange_map
        status, _, _ = self._call(lambda: ali.init_exchange_map(scale))
        extra = None
        self.oracle_checks += 1
        if unset:
            if status != "ValueError":
                self.fail("initmap:unset-side-not-refused", status)
            if ali.exchange_map is not before:
                self.fail("initmap:refused-call-changed-exchange_map")
        elif status == "ok":
            em = ali.exchange_map
            if em is before or em is None:
                self.fail("initmap:no-new-map")
            else:
                if hasattr(em, '_refmolecule') and hasattr(em, '_targetmolecule') and \
                        (em._refmolecule is not ali.start or em._targetmolecule is not ali.end):
                    self.fail("initmap:map-not-of-the-stored-molecules")
                if fbits(float(em.scale_factor)) != fbits(float(scale)):
                    self.fail("initmap:scale-factor", [em.scale_factor, scale])
                refm, tgtm = ali.start, ali.end
                rp, tp = np.array(refm.atoms_positions, dtype=float), np.array(tgtm.atoms_positions, dtype=float)
                extra = {"equiv": sorted((int(k), int(v)) for k, v in getattr(em, '_equivalences', {}).items()),
                         "keys": sorted(int(k) for k in getattr(em, '_refsystems', {})),
                         "dist": [{int(a): float(np.linalg.norm(tp[j] - rp[a])) if int(a) < len(rp) else -1.0
                                   for a in getattr(em, '_refsystems', {})} for j in range(len(tp))],
                         "ref": next((i for i, o in enumerate(self.env) if o is getattr(em, '_refmolecule', None)), -1),
                         "tgt": next((i for i, o in enumerate(self.env) if o is getattr(em, '_targetmolecule', None)), -1)}
                # the map is of the CURRENT configuration: a map built independently on deep copies agrees
                from gaddlemaps import ExchangeMap
                st2, em2, _ = self._call(lambda: ExchangeMap(refm.deep_copy(), tgtm.deep_copy(), scale))
                if st2 == "ok" and sorted((int(k), int(v)) for k, v in getattr(em2, '_equivalences', {}).items()) != extra["equiv"]:
                    self.fail("initmap:not-the-map-of-the-current-configuration")
        self.record(f"initmap {fbits(float(scale))}", f"init_exchange_map({scale})", status, extra)
        return status

    def comparative(self, fname):
        """write_comparative_gro(fname) with cwd = the scratch directory; fname None = default name"""
        ali = self.ali
        unset = ali.start is None or ali.end is None
        pre = self.snapshot()
        s_name = None if unset else str(ali.start.name)
        cwd = os.getcwd()
        os.chdir(self.dir)
        try:
            before = set(os.listdir("."))
            expect_name = fname if fname is not None else (None if unset else f"{s_name}_compare.gro")
            if expect_name is not None and os.path.exists(expect_name) and os.path.isfile(expect_name):
                os.remove(expect_name)
                before.discard(expect_name)
            status, _, err = self._call(lambda: ali.write_comparative_gro(fname) if fname is not None
                                        else ali.write_comparative_gro())
            after = set(os.listdir("."))
            created = sorted(after - before)
            data = None
            if expect_name is not None and os.path.isfile(expect_name):
                with open(expect_name, "rb") as f:
                    data = f.read()
            post = self.snapshot()
            self.oracle_checks += 4
            # nothing the caller or the Alignment holds may change
            if not hg.bits_equal(_tup(pre), _tup(post)):
                self.fail("comparative:stored-or-caller-molecules-modified")
            if unset:
                if status != "ValueError":
                    self.fail("comparative:unset-side-not-refused", status)
                if created:
                    self.fail("comparative:refused-call-created-a-file", created)
            elif not ext_ok(expect_name):
                # open_coordinate_file knows no parser for the extension: ValueError, and no file
                if status != "ValueError":
                    self.fail("comparative:unknown-extension-not-refused", {"name": expect_name, "status": status})
                if data is not None or created:
                    self.fail("comparative:refused-call-created-a-file", created)
            elif status != "ok":
                # both molecules set, a registered extension: the method has no reason to raise
                self.fail("comparative:raises-" + status, None if err is None else str(err)[:200])
            else:
                sg, eg = hg.gro_part(post[1]), hg.gro_part(post[2])
                if created != [expect_name] and not (fname is not None and os.sep in fname):
                    self.fail("comparative:file-name", {"created": created, "expected": expect_name})
                if data is None:
                    self.fail("comparative:no-file-written", expect_name)
                elif not fits_field(sg + eg):
                    # a coordinate that needs more than the 8 columns of '%8.3f' widens its line; the writer places
                    # the box line by (first line's length) x (number of atoms): outside C13's quantifier ("values
                    # that fit the field width"); the bytes are still compared with the model
                    self.ctx.count("comparative:coordinate-wider-than-its-field(outside C13's quantifier)")
                else:
                    if data != expected_bytes(sg, eg):
                        self.fail("comparative:records", {"got": data[:400].decode("latin-1"),
                                                          "expected": expected_bytes(sg, eg)[:400].decode("latin-1")})
                    else:
                        self.oracle_checks += 1
                        prob = readback_problem(expect_name, sg, eg)
                        if prob:
                            self.fail("comparative:roundtrip", prob)
            extra = {"file": expect_name if (status == "ok" or data is not None) else None, "data": data,
                     "message": None if err is None else str(err)[:200]}
            for c in created:
                if os.path.isfile(c):
                    os.remove(c)
        finally:
            os.chdir(cwd)
        tok = "N" if fname is None else "F " + hexs(fname)
        self.record(f"cmp {tok}", f"write_comparative_gro({fname!r})", status, extra)
        return status


def _tup(snap):
    return (tuple(snap[0]), snap[1] if snap[1] is not None else ("-",), snap[2] if snap[2] is not None else ("-",))


# ----------------------------------------------------------------------------- comparison with the model

def _near_tie(ex, model_pairs):
    try:
        for (j, a), (j2, b) in zip(ex["equiv"], model_pairs):
            if j != j2:
                return False
            if a != b:
                da, db = ex["dist"][j][a], ex["dist"][j][b]
                if abs(da - db) > 1e-12 * max(1.0, da, db):
                    return False
        return True
    except Exception:   # noqa: BLE001
        return False


def compare(ctx, case, w, toks, label):
    """walk the model's response; report the first difference"""
    cur = hg.Cursor(toks)
    for k, (st, want) in enumerate(zip(w.status, w.snaps)):
        op = w.ops[k].split(" ", 1)[0]
        mst = cur.tok()
        skip_rest = False
        if op == "initmap":
            pairs = sorted(cur.pairs("E"))
            keys = cur.nats("K")
            assert cur.tok() == "R"
            ref = cur.int()
            assert cur.tok() == "T"
            tgt = cur.int()
            ex = w.extra[k]
            if ex is not None and mst == "ok" and st == "ok":
                if pairs != ex["equiv"]:
                    if _near_tie(ex, pairs):
                        ctx.near_ties += 1
                    else:
                        ctx.disagree(case, f"{label}: equivalences of the map built by init_exchange_map", ex["equiv"], pairs)
                        return False
                elif keys != ex["keys"]:
                    ctx.disagree(case, f"{label}: frame-table keys after init_exchange_map", ex["keys"], keys)
                    return False
                if (ref, tgt) != (ex["ref"], ex["tgt"]):
                    ctx.disagree(case, f"{label}: molecules the map refers to (environment indices)",
                                 [ex["ref"], ex["tgt"]], [ref, tgt])
                    return False
        elif op == "cmp":
            fk = cur.tok()
            mfile = cur.str() if fk == "F" else None
            hx = cur.tok()
            mdata = b"" if hx == "-" else bytes.fromhex(hx)
            ex = w.extra[k]
            if mst == st:
                if st == "ok":
                    if mfile != ex["file"]:
                        ctx.disagree(case, f"{label}: name of the comparative file", ex["file"], mfile)
                        return False
                    if ex["data"] is not None and mdata != ex["data"]:
                        ctx.disagree(case, f"{label}: bytes of the comparative file",
                                     ex["data"][:300].decode("latin-1"), mdata[:300].decode("latin-1"))
                        return False
                    ctx.count("model:comparative-file-bytes-compared")
                elif (mfile is None) != (ex["data"] is None):
                    ctx.disagree(case, f"{label}: a raising write_comparative_gro {'created' if ex['data'] is not None else 'did not create'} the file",
                                 ex["data"] is not None, mfile)
                    return False
        nenv = cur.int()
        snap = [cur.obs() for _ in range(nenv)]
        sk = cur.tok()
        ms = cur.obs() if sk == "S" else None
        ek = cur.tok()
        me = cur.obs() if ek == "E" else None
        if mst != st:
            ctx.disagree(case, f"{label}: outcome of call {k} ({w.desc[k]})", st, mst)
            return False
        if want is None:         # a mirrored call whose effect on the coordinates is told to the model afterwards
            continue
        if len(snap) != len(want[0]):
            ctx.disagree(case, f"{label}: number of live molecules after call {k} ({w.desc[k]})", len(want[0]), len(snap))
            return False
        for i, (a, b) in enumerate(zip(want[0], snap)):
            if not hg.obs_close(a, b, TOL):
                ctx.disagree(case, f"{label}: molecule {i} after call {k} ({w.desc[k]})", a, b)
                return False
        for who, a, b in (("start", want[1], ms), ("end", want[2], me)):
            if (a is None) != (b is None) or (a is not None and not hg.obs_close(a, b, TOL)):
                ctx.disagree(case, f"{label}: alignment.{who} after call {k} ({w.desc[k]})", a, b)
                return False
        if skip_rest:
            return True
    return True


def ask(ctx, case, w, label):
    def cb(status, toks, case, w=w):
        if status != "ok":
            ctx.disagree(case, f"{label}: ali_session", "ok", [status] + toks[:2])
            return
        try:
            if compare(ctx, case, w, toks, label):
                ctx.count("model:alignment-sessions-compared")
                ctx.count("model:alignment-session-calls-compared", len(w.ops))
        except (IndexError, AssertionError, ValueError) as e:
            ctx.disagree(case, f"{label}: response cannot be parsed ({type(e).__name__}: {e})", len(w.ops), "?")
    ctx.model.ask("ali_session", w.request(), cb, case)
