"""harness.mgrgen — generators of simulation systems / file directories for C05 and C20.

A *description* is a JSON-serialisable dict (so that a replay file is self-contained);
`materialize(desc, directory)` writes the real `.gro` / `.itp` files the library is then run on.

description
  title : str (without line terminator)            box : [3] (rectangular) | [9] (3x3 row-major, triclinic)
  sysvel : bool (system .gro has velocities)
  species : [ {name, loaded (start topology given to the Manager), cg: MOL, aa: MOL | None} ]
        MOL = {residues: [{resname, atoms: [names]}], bonds: [[i, j]] (0-based), xyz: [[x,y,z]], vel: bool}
  solvent : {resname, atoms:[names]} | None          (residues present in the .gro, no topology anywhere)
  mols : [ {sp: index | -1 (solvent), resids: [int per residue], xyz: [[x,y,z]]} ]   — FILE ORDER
"""
from __future__ import annotations

import math
import os

LETTERS = "ABCDEFGHJKLMNPQRSTUVWXYZ"


# ----------------------------------------------------------------------------- geometry helpers

def _unit(rng):
    while True:
        v = [rng.gauss(0, 1) for _ in range(3)]
        n = math.sqrt(sum(c * c for c in v))
        if n > 1e-3:
            return [c / n for c in v]


def _rot(rng):
    """random rotation matrix from a random unit quaternion"""
    while True:
        q = [rng.gauss(0, 1) for _ in range(4)]
        n = math.sqrt(sum(c * c for c in q))
        if n > 1e-3:
            break
    w, x, y, z = [c / n for c in q]
    return [[1 - 2 * (y * y + z * z), 2 * (x * y - z * w), 2 * (x * z + y * w)],
            [2 * (x * y + z * w), 1 - 2 * (x * x + z * z), 2 * (y * z - x * w)],
            [2 * (x * z - y * w), 2 * (y * z + x * w), 1 - 2 * (x * x + y * y)]]


def _apply(R, t, p):
    return [R[i][0] * p[0] + R[i][1] * p[1] + R[i][2] * p[2] + t[i] for i in range(3)]


def _r3(p):
    return [round(c, 3) for c in p]


# ----------------------------------------------------------------------------- species

def gen_cg(rng, tag, natoms, nres):
    """start-resolution molecule: random tree, bond length 0.30-0.47, `nres` contiguous residues"""
    xyz = [[0.0, 0.0, 0.0]]
    bonds = []
    for i in range(1, natoms):
        j = rng.randrange(i) if rng.random() < 0.5 else i - 1
        for _ in range(50):
            d = _unit(rng)
            L = rng.uniform(0.30, 0.47)
            p = [xyz[j][k] + L * d[k] for k in range(3)]
            if all(math.dist(p, q) > 0.25 for q in xyz):
                break
        xyz.append(p)
        bonds.append([j, i])
    # contiguous split in nres residues
    nres = max(1, min(nres, natoms))
    cuts = sorted(rng.sample(range(1, natoms), nres - 1)) if nres > 1 else []
    bounds = [0] + cuts + [natoms]
    residues = []
    for r in range(nres):
        names = [f"B{i + 1}" for i in range(bounds[r], bounds[r + 1])]
        residues.append({"resname": f"{tag}{r}" if nres > 1 else f"{tag}", "atoms": names})
    return {"residues": residues, "bonds": bonds, "xyz": [_r3(p) for p in xyz], "vel": False}


def gen_aa(rng, cg, vel=False, extra_residue=False, smaller=False):
    """end-resolution molecule built around the start template: every start residue becomes an end
    residue with the same resname and a DIFFERENT number of atoms (so the residue signatures of the
    two resolutions never coincide); connected bond graph."""
    residues, xyz, bonds = [], [], []
    idx_of_cg = {}
    cg_index = 0
    elements = ["C", "N", "O", "H", "C"]
    for res in cg["residues"]:
        names = []
        if smaller:
            # ONE end atom per start residue (placed at the residue's centroid)
            n = len(res["atoms"])
            pts = cg["xyz"][cg_index:cg_index + n]
            a = len(xyz)
            xyz.append([sum(p[c] for p in pts) / n for c in range(3)])
            names.append(f"C{a + 1}")
            for ci in range(cg_index, cg_index + n):
                idx_of_cg[ci] = a
            cg_index += n
            residues.append({"resname": res["resname"], "atoms": names})
            continue
        for _ in res["atoms"]:
            k = rng.randint(2, 3)
            group = []
            base = cg["xyz"][cg_index]
            for g in range(k):
                d = _unit(rng)
                L = rng.uniform(0.08, 0.15) if g else 0.03
                p = [base[c] + L * d[c] for c in range(3)]
                a = len(xyz)
                xyz.append(p)
                el = "C" if g == 0 else rng.choice(elements)
                names.append(f"{el}{a + 1}")
                if group:
                    bonds.append([group[0], a])
                group.append(a)
            idx_of_cg[cg_index] = group[0]
            cg_index += 1
        residues.append({"resname": res["resname"], "atoms": names})
    for i, j in cg["bonds"]:
        a, b = idx_of_cg[i], idx_of_cg[j]
        if a != b and [a, b] not in bonds and [b, a] not in bonds:
            bonds.append([a, b])
    if extra_residue:
        # an additional end residue: the two resolutions then have a different number of residues
        a = len(xyz)
        xyz.append([xyz[-1][0] + 0.12, xyz[-1][1], xyz[-1][2]])
        xyz.append([xyz[-1][0] + 0.12, xyz[-1][1] + 0.05, xyz[-1][2]])
        residues.append({"resname": "XTR", "atoms": [f"C{a + 1}", f"O{a + 2}"]})
        bonds.append([a - 1, a])
        bonds.append([a, a + 1])
    # the end-resolution coordinate file numbers its residues from `resid0`: usually 1 like the topology's
    # resnr, often NOT (a molecule cut out of a larger system).  The numbers written by an extrapolation are the
    # INPUT molecule's, whatever the template file and the shared topology happen to hold (seed C05-3)
    resid0 = rng.choice([1, 1, 1, 2, 12, 300, 4071])
    return {"residues": residues, "bonds": bonds, "xyz": [_r3(p) for p in xyz], "vel": bool(vel), "resid0": resid0}


def gen_species(rng, idx, kind, mapped=True, loaded=True, aa_vel=False, extra_residue=False):
    tag = "R" + LETTERS[idx % len(LETTERS)]
    name = "M" + LETTERS[idx % len(LETTERS)] + rng.choice(["", "X", "1", "_a"])
    if kind == "one":
        cg = gen_cg(rng, tag, 1, 1)
    elif kind == "two":
        cg = gen_cg(rng, tag, 2, rng.choice([1, 1, 2]))
    elif kind == "multi":
        n = rng.randint(4, 8)
        cg = gen_cg(rng, tag, n, rng.randint(2, min(4, n)))
    elif kind == "reverse":       # end smaller than start
        cg = gen_cg(rng, tag, rng.randint(3, 5), 1)
    else:
        cg = gen_cg(rng, tag, rng.randint(3, 7), 1)
    aa = None
    if mapped:
        aa = gen_aa(rng, cg, vel=aa_vel, extra_residue=extra_residue, smaller=(kind == "reverse"))
    return {"name": name, "kind": kind, "loaded": bool(loaded), "cg": cg, "aa": aa}


# ----------------------------------------------------------------------------- systems

def gen_box(rng, triclinic):
    a, b, c = [round(rng.uniform(3.0, 9.0), 5) for _ in range(3)]
    if not triclinic:
        if rng.random() < 0.25:
            # a rectangular box SMALLER than the molecules written in it (molecules written whole across the boundary):
            # the map is applied to the coordinates in the file, not to images of them (seed C05-14: molecules "re-joined"
            # atom by atom before mapping)
            a, b, c = [round(rng.uniform(0.2, 0.8), 5) for _ in range(3)]
        return [a, b, c]
    d, e, f = [round(rng.uniform(-1.5, 1.5), 5) for _ in range(3)]
    return [a, 0.0, 0.0, d, b, 0.0, e, f, c]


def gen_title(rng):
    if rng.random() < 0.06:
        return ""           # an EMPTY title line is a title (seed C05-13: `self._comment or DEFAULT`)
    words = ["mapped", "system", "t=", "0.000", "ionic", "liquid", "GROMACS", "rocks", "step", "42", "#", "CG;"]
    t = " ".join(rng.choice(words) for _ in range(rng.randint(1, 6)))
    if rng.random() < 0.12:
        # characters that take two bytes in the (UTF-8) file: the count line of the OUTPUT is found by a byte offset
        # (seed C05-11: `len(self.comment) + 1`, a character count)
        t += rng.choice([" líquido iónico", " caja de 4,2 nm ± 0,1", " é"])
    return t if rng.random() < 0.8 else "  " + t + "  "


def gen_system(rng, nmol_max=60, small=False, force_kinds=None):
    """2-5 species (1-atom, 2-atom, multi-residue, general), one unmapped species with no end
    molecule, a solvent with no topology loaded; 1..nmol_max molecules interleaved"""
    nsp = rng.randint(2, 3 if small else 5)
    kinds = list(force_kinds) if force_kinds else []
    nsp = max(nsp, len(kinds))
    pool = ["one", "two", "multi", "general", "general", "reverse"]
    while len(kinds) < nsp:
        kinds.append(rng.choice(pool))
    rng.shuffle(kinds)
    species = []
    unmapped = rng.randrange(nsp) if rng.random() < 0.7 else -1
    aa_vel = rng.random() < 0.2
    for i, k in enumerate(kinds):
        species.append(gen_species(rng, i, k, mapped=(i != unmapped), aa_vel=aa_vel))
    if all(s["aa"] is None for s in species):
        species[0] = gen_species(rng, 0, kinds[0], mapped=True, aa_vel=aa_vel)
    solvent = {"resname": "W", "atoms": ["W"]} if rng.random() < 0.6 else None
    if solvent and rng.random() < 0.3:
        solvent = {"resname": "SOL", "atoms": ["OW", "HW1", "HW2"]}
    nmol = rng.randint(1, nmol_max)
    box = gen_box(rng, rng.random() < 0.4)
    diag = box[:3] if len(box) == 3 else [box[0], box[4], box[8]]
    # every loaded species must occur at least once (System raises otherwise)
    order = list(range(nsp))
    while len(order) < max(nmol, nsp):
        r = rng.random()
        if solvent and r < 0.2:
            order.append(-1)
        else:
            order.append(rng.randrange(nsp))
    rng.shuffle(order)
    if rng.random() < 0.3:         # blocks instead of full interleaving
        order.sort(key=lambda s: (s * 7) % 5)
    mols = []
    resid = rng.choice([1, 1, 1, 5, 120, 9990])
    for sp in order:
        R, t = _rot(rng), [rng.uniform(0.0, d) for d in diag]
        if sp < 0:
            n = len(solvent["atoms"])
            tmpl = [[0.0, 0.0, 0.0], [0.08, 0.05, 0.0], [-0.08, 0.05, 0.0]][:n]
            nres = 1
        else:
            tmpl = species[sp]["cg"]["xyz"]
            nres = len(species[sp]["cg"]["residues"])
        xyz = [_r3(_apply(R, t, p)) for p in tmpl]
        rids = []
        for _ in range(nres):
            rids.append(resid)
            resid += 1 if rng.random() < 0.9 else rng.randint(2, 4)
        mols.append({"sp": sp, "resids": rids, "xyz": xyz})
    return {"title": gen_title(rng), "box": box, "sysvel": rng.random() < 0.3, "species": species,
            "solvent": solvent, "mols": mols}


# ----------------------------------------------------------------------------- file writers

def gro_atom(resid, resname, name, num, xyz, vel=None):
    s = "{:5d}{:5s}{:>5s}{:5d}{:8.3f}{:8.3f}{:8.3f}".format(resid % 100000, resname, name, num % 100000, *xyz)
    if vel is not None:
        s += "{:8.4f}{:8.4f}{:8.4f}".format(*vel)
    return s


def box_line(box):
    if len(box) == 3:
        return " ".join("{:9.5f}".format(b) for b in box)
    m = box
    # v1(x) v2(y) v3(z) v1(y) v1(z) v2(x) v2(z) v3(x) v3(y)
    vals = [m[0], m[4], m[8], m[1], m[2], m[3], m[5], m[6], m[7]]
    return " ".join("{:9.5f}".format(b) for b in vals)


def box_matrix(box):
    if len(box) == 3:
        return [[box[0], 0.0, 0.0], [0.0, box[1], 0.0], [0.0, 0.0, box[2]]]
    return [list(box[0:3]), list(box[3:6]), list(box[6:9])]


def write_gro(path, title, atoms, box, vel=False):
    """atoms: [(resid, resname, name, xyz)]"""
    with open(path, "w") as f:
        f.write(title + "\n")
        f.write("{:5d}\n".format(len(atoms)))
        for i, (resid, resname, name, xyz) in enumerate(atoms):
            v = [0.0123 * ((i % 7) - 3), -0.0456 * ((i % 5) - 2), 0.1] if vel else None
            f.write(gro_atom(resid, resname, name, i + 1, xyz, v) + "\n")
        f.write(box_line(box) + "\n")


def write_itp(path, molname, mol, comment=None):
    with open(path, "w") as f:
        if comment:
            f.write(f"; {comment}\n")
        f.write("[ moleculetype ]\n; name nrexcl\n{}   1\n\n[ atoms ]\n".format(molname))
        f.write("; nr type resnr residue atom cgnr charge mass\n")
        n = 0
        for r, res in enumerate(mol["residues"]):
            for name in res["atoms"]:
                n += 1
                f.write("{:5d} {:6s} {:4d} {:6s} {:6s} {:4d} {:8.3f} {:8.3f}\n".format(
                    n, "T" + name[:1], r + 1, res["resname"], name, n, 0.0, 12.0))
        if mol["bonds"]:
            f.write("\n[ bonds ]\n; i j funct length force\n")
            for i, j in mol["bonds"]:
                f.write("{:5d} {:5d} 1 0.3 1000\n".format(i + 1, j + 1))
        f.write("\n")


def mol_atoms(mol, resid0=1, xyz=None):
    """[(resid, resname, name, xyz)] of a single molecule, residues numbered from resid0"""
    out = []
    k = 0
    xyz = xyz or mol["xyz"]
    for r, res in enumerate(mol["residues"]):
        for name in res["atoms"]:
            out.append((resid0 + r, res["resname"], name, xyz[k]))
            k += 1
    return out


def system_atoms(desc):
    atoms = []
    for m in desc["mols"]:
        if m["sp"] < 0:
            sv = desc["solvent"]
            for name, p in zip(sv["atoms"], m["xyz"]):
                atoms.append((m["resids"][0], sv["resname"], name, p))
        else:
            cg = desc["species"][m["sp"]]["cg"]
            k = 0
            for r, res in enumerate(cg["residues"]):
                for name in res["atoms"]:
                    atoms.append((m["resids"][r], res["resname"], name, m["xyz"][k]))
                    k += 1
    return atoms


def materialize(desc, directory, names=None):
    """write the system .gro and, per species, start topology / end coordinates / end topology.
    `names(i, role)` may rename the files (role in sys, cg, aagro, aaitp). Returns paths."""
    os.makedirs(directory, exist_ok=True)

    def nm(i, role, default):
        return os.path.join(directory, names(i, role) if names else default)

    paths = {"sys": nm(-1, "sys", "system.gro"), "species": []}
    write_gro(paths["sys"], desc["title"], system_atoms(desc), desc["box"], vel=desc.get("sysvel", False))
    for i, sp in enumerate(desc["species"]):
        p = {"cg": nm(i, "cg", f"sp{i}_start.itp"), "aagro": None, "aaitp": None}
        write_itp(p["cg"], sp["name"], sp["cg"], comment="start resolution")
        if sp["aa"] is not None:
            p["aagro"] = nm(i, "aagro", f"sp{i}_end.gro")
            p["aaitp"] = nm(i, "aaitp", f"sp{i}_end.itp")
            write_itp(p["aaitp"], sp.get("aa_name", sp["name"]), sp["aa"], comment="end resolution")
            write_gro(p["aagro"], f"end molecule {sp['name']}", mol_atoms(sp["aa"], resid0=sp["aa"].get("resid0", 1)),
                      [3.0, 3.0, 3.0], vel=sp["aa"].get("vel", False))
        paths["species"].append(p)
    return paths


# ----------------------------------------------------------------------------- expected output

def expected_layout(desc, mapped_idx):
    """ground truth of C05 from the description alone: for every input molecule, in FILE ORDER, whose
    species index is in `mapped_idx`: (species index, input residue numbers, target residue sizes)"""
    out = []
    for m in desc["mols"]:
        if m["sp"] in mapped_idx:
            aa = desc["species"][m["sp"]]["aa"]
            out.append((m["sp"], list(m["resids"]), [len(r["atoms"]) for r in aa["residues"]]))
    return out
