"""harness.molfiles — write small .itp/.gro files and load real gaddlemaps molecules from them."""
from __future__ import annotations

import itertools
import os

import numpy as np

_counter = itertools.count()


def write_itp(path, name, atoms, bonds):
    """atoms: list of (atomname, resname, resid); bonds: iterable of 0-based (i, j)."""
    with open(path, "w") as f:
        f.write("[ moleculetype ]\n; Name nrexcl\n%s 3\n\n[ atoms ]\n" % name)
        for k, (an, rn, ri) in enumerate(atoms):
            f.write("%6d  X  %5d  %5s  %5s  %5d  0.0  1.0\n" % (k + 1, ri, rn, an, k + 1))
        f.write("\n[ bonds ]\n")
        for i, j in bonds:
            f.write("%5d %5d 1\n" % (i + 1, j + 1))
        f.write("\n")


def write_gro(path, atoms, positions, title="generated", box=(10.0, 10.0, 10.0)):
    """atoms: list of (atomname, resname, resid)."""
    with open(path, "w") as f:
        f.write(title + "\n%5d\n" % len(atoms))
        for k, ((an, rn, ri), p) in enumerate(zip(atoms, positions)):
            f.write("%5d%-5s%5s%5d%8.3f%8.3f%8.3f\n" % (ri % 100000, rn, an, (k + 1) % 100000,
                                                        p[0], p[1], p[2]))
        f.write("%10.5f%10.5f%10.5f\n" % tuple(box))


def make_molecule(scratch, name, atomnames, positions, bonds, resname=None, resids=None):
    """Build a real gaddlemaps Molecule with EXACT float positions (assigned after loading, since
    the .gro text only carries 3 decimals)."""
    from gaddlemaps.components import Molecule
    n = len(atomnames)
    resname = resname or name[:5]
    resids = resids or [1] * n
    rn = resname if isinstance(resname, list) else [resname] * n
    atoms = [(atomnames[k], rn[k], resids[k]) for k in range(n)]
    tag = next(_counter)
    fitp = os.path.join(scratch, f"m{tag}.itp")
    fgro = os.path.join(scratch, f"m{tag}.gro")
    write_itp(fitp, name, atoms, bonds)
    # well separated placeholder coordinates (the real ones are assigned below)
    write_gro(fgro, atoms, [(0.1 * k, 0.0, 0.0) for k in range(n)])
    mol = Molecule.from_files(fgro, fitp)
    mol.atoms_positions = np.array(positions, dtype=float).reshape(n, 3)
    os.unlink(fitp)
    os.unlink(fgro)
    return mol


def random_tree(rng, n):
    """random labelled tree on n vertices as an edge list (random attachment)"""
    return [(rng.randrange(k), k) for k in range(1, n)]


def neighbours(n, bonds):
    nb = [set() for _ in range(n)]
    for i, j in bonds:
        nb[i].add(j)
        nb[j].add(i)
    return nb
